"""Shared machinery for the /verif checks (python3 standard library only).

 * scratch directories outside /repo and /verif, removed when the check ends
 * running TLC (exhaustive, simulation, trace validation) with timeouts and result parsing
 * parsing TLC values / `-simulate file=` behaviour files into python data
 * building and running the Go conformance harness against /repo's working tree
   (`go test -tags verif -overlay ...`, in-package white-box files kept under /verif/harness)
 * evidence files, known findings, verdict printing and exit codes

Verdict rule (DESIGN.md section 2): exit 1 only for a property violation observed on the real code
and judged by TLC on the recorded trace; anything the machinery could not decide is exit 2.
"""
import json
import os
import re
import shutil
import subprocess
import sys
import tempfile
import time

ROOT = os.path.dirname(os.path.dirname(os.path.abspath(__file__)))
REPO = os.environ.get("VERIF_REPO", "/repo")
SPEC = os.path.join(ROOT, "spec")
HARNESS = os.path.join(ROOT, "harness")
# (VERIF_EVIDENCE_DIR redirects evidence + replay artefacts, used when the checks are run against a
# scratch copy of the repository for mutation experiments, so that the committed evidence is untouched)
EVIDENCE = os.environ.get("VERIF_EVIDENCE_DIR") or os.path.join(ROOT, "evidence")
REPLAY = os.path.join(EVIDENCE, "replay")
TLA_CP = "/opt/veriftools/tla/tla2tools.jar:/opt/veriftools/tla/CommunityModules-deps.jar"
NCPU = os.cpu_count() or 4


class Inconclusive(Exception):
    """The machinery could not decide (tool error, timeout, unrealisable schedule...)."""


class Ctx:
    def __init__(self, pid, tier, seed):
        self.pid = pid
        self.tier = tier
        self.seed = seed
        self.t0 = time.time()
        base = os.environ.get("VERIF_TMP", tempfile.gettempdir())
        self.scratch = tempfile.mkdtemp(prefix="verif-%s-" % pid, dir=base)
        self.n = 0
        self.violations = []   # dicts: {what, replay, sig}
        self.known = []        # dicts: {finding, what}
        self.notes = []
        self.drift = 0
        self.tlc_runs = []     # summaries of every TLC run (for the evidence)

    def sub(self, name):
        self.n += 1
        d = os.path.join(self.scratch, "%02d-%s" % (self.n, name))
        os.makedirs(d)
        return d

    def quick(self):
        return self.tier == "quick"

    def pick(self, quick, thorough):
        return quick if self.tier == "quick" else thorough

    def cleanup(self):
        if os.environ.get("VERIF_KEEP"):
            print("scratch kept: %s" % self.scratch)
            return
        shutil.rmtree(self.scratch, ignore_errors=True)

    def wall(self):
        return round(time.time() - self.t0, 2)


def log(msg):
    print(msg, flush=True)


# ----------------------------------------------------------------------------------------------
# TLC
# ----------------------------------------------------------------------------------------------

class TLCResult:
    def __init__(self):
        self.rc = None
        self.out = ""
        self.generated = 0
        self.distinct = 0
        self.depth = 0
        self.ok = False             # finished without error
        self.violated = None        # name of violated invariant / property
        self.timed_out = False
        self.error = None           # short description of a non-property error
        self.wall = 0.0
        self.dir = None
        self.coverage = {}

    def summary(self):
        return {"rc": self.rc, "generated": self.generated, "distinct": self.distinct,
                "depth": self.depth, "ok": self.ok, "violated": self.violated,
                "timed_out": self.timed_out, "error": self.error, "wall_s": round(self.wall, 2)}


def _java_cmd(tmpdir, heap=None, extra_props=()):
    cmd = ["java", "-XX:+UseParallelGC", "-Xss256m", "-Djava.io.tmpdir=%s" % tmpdir]
    if heap:
        cmd.append("-Xmx%s" % heap)
    cmd += list(extra_props)
    cmd += ["-cp", TLA_CP, "tlc2.TLC"]
    return cmd


def stage_specs(dst, files):
    """Copy specification files (paths relative to /verif/spec or absolute) into dst."""
    for f in files:
        src = f if os.path.isabs(f) else os.path.join(SPEC, f)
        shutil.copy(src, dst)


def tlc(ctx, files, module, cfg, name=None, workers=None, timeout=600, simulate=None,
        deadlock=False, heap=None, extra=(), dfs_queue=False, workdir=None, extra_files=(),
        coverage=False, seed=None, jvm=()):
    """Run TLC.  `files`: spec files to stage; `cfg`: cfg file name (staged) or literal text.
    simulate: dict(num=, depth=, file=basename or None).  Returns TLCResult."""
    d = workdir or ctx.sub(name or module)
    stage_specs(d, files)
    for src, dstname in extra_files:
        shutil.copy(src, os.path.join(d, dstname))
    if "\n" in cfg or cfg.strip().startswith(("SPECIFICATION", "INIT", "CONSTANT")):
        cfgname = module + "_gen.cfg"
        with open(os.path.join(d, cfgname), "w") as f:
            f.write(cfg)
    else:
        cfgname = os.path.basename(cfg)
        if not os.path.exists(os.path.join(d, cfgname)):
            stage_specs(d, [cfg])
    meta = os.path.join(d, "meta")
    tmp = os.path.join(d, "tmp")
    os.makedirs(meta, exist_ok=True)
    os.makedirs(tmp, exist_ok=True)
    props = list(jvm)
    if dfs_queue:
        props.append("-Dtlc2.tool.queue.IStateQueue=StateDeque")
    cmd = _java_cmd(tmp, heap, props)
    cmd += ["-metadir", meta, "-config", cfgname, "-noGenerateSpecTE"]
    w = workers if workers is not None else NCPU
    cmd += ["-workers", str(w)]
    if not deadlock:
        cmd += ["-deadlock"]          # -deadlock DISABLES deadlock checking
    if coverage:
        cmd += ["-coverage", "1"]
    if simulate:
        spec = "num=%d" % simulate["num"]
        if simulate.get("file"):
            spec = "file=%s,%s" % (os.path.join(d, simulate["file"]), spec)
        cmd += ["-simulate", spec, "-depth", str(simulate["depth"])]
        cmd += ["-seed", str(seed if seed is not None else ctx.seed)]
    cmd += list(extra)
    cmd += [module + ".tla"]
    r = TLCResult()
    r.dir = d
    t0 = time.time()
    try:
        p = subprocess.run(cmd, cwd=d, stdout=subprocess.PIPE, stderr=subprocess.STDOUT,
                           timeout=timeout, text=True, errors="replace")
        r.rc = p.returncode
        r.out = p.stdout
    except subprocess.TimeoutExpired as e:
        r.timed_out = True
        r.out = (e.stdout or b"").decode("utf-8", "replace") if isinstance(e.stdout, bytes) else (e.stdout or "")
        subprocess.run(["pkill", "-f", "metadir %s" % meta], check=False)
    r.wall = time.time() - t0
    _parse_tlc_output(r, simulate is not None)
    with open(os.path.join(d, "tlc.out"), "w") as f:
        f.write(r.out)
    ctx.tlc_runs.append(dict(r.summary(), module=module, cfg=cfgname,
                             mode="simulate" if simulate else "bfs"))
    return r


def _parse_tlc_output(r, simulate):
    out = r.out
    m = None
    for m in re.finditer(r"(\d+) states generated, (\d+) distinct states found", out):
        pass
    if m:
        r.generated, r.distinct = int(m.group(1)), int(m.group(2))
    m = re.search(r"The depth of the complete state graph search is (\d+)", out)
    if m:
        r.depth = int(m.group(1))
    if simulate:
        m = None
        for m in re.finditer(r"Progress: (\d+) states checked, (\d+) traces generated", out):
            pass
        if m:
            r.generated = int(m.group(1))
            r.distinct = int(m.group(2))   # number of behaviours in simulation mode
    m = re.search(r"Invariant (\S+) is violated", out)
    if m:
        r.violated = m.group(1)
    m = re.search(r"Action property (\S+) is violated", out) or re.search(r"Temporal properties were violated", out)
    if m and not r.violated:
        r.violated = m.group(1) if m.groups() else "temporal"
    if "Deadlock reached" in out and not r.violated:
        r.violated = "Deadlock"
    if re.search(r"The postcondition.*(false|violated)", out, re.I) or "Postcondition" in out and "violated" in out:
        if not r.violated:
            r.violated = "Postcondition"
    finished = "Model checking completed. No error has been found." in out or \
               (simulate and r.rc == 0)
    if r.timed_out:
        r.ok = False
        r.error = "timeout"
    elif finished and not r.violated:
        r.ok = True
    elif r.violated:
        r.ok = False
    else:
        r.ok = False
        m = re.search(r"Error: (.*)", out)
        r.error = (m.group(1)[:300] if m else "TLC exit code %s" % r.rc)
    # coverage lines: <Action line ...>: distinct:generated
    for m in re.finditer(r"^<(\w+) line \d+, col \d+ to line \d+, col \d+ of module (\w+)>: (\d+):(\d+)", out, re.M):
        r.coverage[m.group(1)] = r.coverage.get(m.group(1), 0) + int(m.group(4))


def sany(files, module, d):
    stage_specs(d, files)
    p = subprocess.run(["java", "-cp", TLA_CP, "tla2sany.SANY", module + ".tla"], cwd=d,
                       stdout=subprocess.PIPE, stderr=subprocess.STDOUT, text=True)
    return p.returncode == 0 and "Semantic errors" not in p.stdout and "Parse Error" not in p.stdout, p.stdout


# ----------------------------------------------------------------------------------------------
# TLA+ value parser (for `-simulate file=` behaviours and PrintT output)
# ----------------------------------------------------------------------------------------------

_TOK = re.compile(r"""\s*(?:(<<|>>|\|->|:>|@@|[\[\]{}(),])|"((?:[^"\\]|\\.)*)"|(-?\d+)|([A-Za-z_][A-Za-z0-9_!]*))""")


def _tokens(s):
    pos = 0
    toks = []
    n = len(s)
    while pos < n:
        m = _TOK.match(s, pos)
        if not m:
            if s[pos:].strip() == "":
                break
            raise ValueError("cannot tokenise TLA value at %r" % s[pos:pos + 40])
        pos = m.end()
        if m.group(1):
            toks.append(("p", m.group(1)))
        elif m.group(2) is not None:
            toks.append(("s", m.group(2)))
        elif m.group(3) is not None:
            toks.append(("i", int(m.group(3))))
        else:
            toks.append(("id", m.group(4)))
    return toks


def parse_tla(s):
    """Parse a TLC-printed value: ints, strings, TRUE/FALSE, model values (as str), <<seq>> (list),
    {set} (list), [f |-> v] (dict), (k :> v @@ ...) (dict with python keys; tuple keys for seq keys)."""
    toks = _tokens(s)
    val, i = _pv(toks, 0)
    if i != len(toks):
        raise ValueError("trailing tokens in TLA value: %r" % (toks[i:i + 5],))
    return val


def _hashable(v):
    if isinstance(v, list):
        return tuple(_hashable(x) for x in v)
    if isinstance(v, dict):
        return tuple(sorted((k, _hashable(x)) for k, x in v.items()))
    return v


def _pv(t, i):
    k, v = t[i]
    if k == "i":
        return v, i + 1
    if k == "s":
        return v, i + 1
    if k == "id":
        if v == "TRUE":
            return True, i + 1
        if v == "FALSE":
            return False, i + 1
        return v, i + 1
    if v == "<<":
        out = []
        i += 1
        while t[i] != ("p", ">>"):
            x, i = _pv(t, i)
            out.append(x)
            if t[i] == ("p", ","):
                i += 1
        return out, i + 1
    if v == "{":
        out = []
        i += 1
        while t[i] != ("p", "}"):
            x, i = _pv(t, i)
            out.append(x)
            if t[i] == ("p", ","):
                i += 1
        return out, i + 1
    if v == "[":
        out = {}
        i += 1
        while t[i] != ("p", "]"):
            name = t[i][1]
            assert t[i + 1] == ("p", "|->"), t[i:i + 3]
            x, i = _pv(t, i + 2)
            out[name] = x
            if t[i] == ("p", ","):
                i += 1
        return out, i + 1
    if v == "(":
        out = {}
        i += 1
        while True:
            kx, i = _pv(t, i)
            assert t[i] == ("p", ":>"), t[i:i + 3]
            x, i = _pv(t, i + 1)
            out[_hashable(kx)] = x
            if t[i] == ("p", "@@"):
                i += 1
                continue
            assert t[i] == ("p", ")"), t[i:i + 3]
            return out, i + 1
    raise ValueError("unexpected token %r" % (t[i],))


_ACT = re.compile(r"^\\\* <(\w+)(?:\((.*)\))? line \d+, col \d+ to line \d+, col \d+ of module (\w+)>")
_INIT = re.compile(r"^\\\* <Initial predicate>")


def parse_behaviour_file(path, want_states=True):
    """Parse one file written by `tlc -simulate file=...`.  Returns a list of steps:
    {"action": name or "Init", "args": [..], "state": {var: value}}"""
    steps = []
    cur = None
    buf = []
    with open(path) as f:
        lines = f.read().split("\n")

    def flush():
        nonlocal cur, buf
        if cur is None:
            return
        if want_states:
            text = "\n".join(buf)
            state = {}
            # conjuncts start with "/\ var = "
            parts = re.split(r"^/\\ ", text, flags=re.M)
            for p in parts:
                p = p.strip()
                if not p:
                    continue
                m = re.match(r"(\w+) = (.*)$", p, re.S)
                if not m:
                    continue
                state[m.group(1)] = parse_tla(m.group(2))
            cur["state"] = state
        steps.append(cur)
        cur, buf = None, []

    pending = None
    for ln in lines:
        if ln.startswith("\\*"):
            m = _ACT.match(ln)
            if m:
                args = []
                if m.group(2):
                    args = parse_tla("<<" + m.group(2) + ">>")
                pending = {"action": m.group(1), "args": args}
            elif _INIT.match(ln):
                pending = {"action": "Init", "args": []}
            continue
        m = re.match(r"^STATE_(\d+) ==", ln)
        if m:
            flush()
            cur = pending or {"action": "?", "args": []}
            pending = None
            buf = []
            continue
        if cur is not None:
            if ln.startswith("====") or ln.startswith("----"):
                continue
            buf.append(ln)
    flush()
    return steps


_ERRSTATE = re.compile(r"^State (\d+): <(\w+)(?:\((.*)\))? line \d+, col \d+ to line \d+, col \d+ of module (\w+)>")


def parse_error_trace(out):
    """Parse the counterexample printed by TLC ("State n: <Action(args) line ...>" blocks) into the
    same step list as parse_behaviour_file.  Returns [] if the output holds no error trace."""
    steps = []
    cur = None
    buf = []

    def flush():
        nonlocal cur, buf
        if cur is None:
            return
        text = "\n".join(buf)
        state = {}
        for p in re.split(r"^/\\ ", text, flags=re.M):
            p = p.strip()
            m = re.match(r"(\w+) = (.*)$", p, re.S)
            if m:
                state[m.group(1)] = parse_tla(m.group(2))
        cur["state"] = state
        steps.append(cur)
        cur, buf = None, []

    for ln in out.split("\n"):
        if ln.startswith("State 1: <Initial predicate>"):
            flush()
            cur = {"action": "Init", "args": []}
            continue
        m = _ERRSTATE.match(ln)
        if m:
            flush()
            args = parse_tla("<<" + m.group(3) + ">>") if m.group(3) else []
            cur = {"action": m.group(2), "args": args}
            continue
        if cur is not None:
            if ln.strip() == "" or ln.startswith(("Error:", "Finished", "The ", "Progress")) or re.match(r"^\d+ states generated", ln):
                if ln.strip() == "":
                    flush()
                continue
            buf.append(ln)
    flush()
    return steps


def list_behaviour_files(d, prefix):
    out = []
    for fn in os.listdir(d):
        if fn.startswith(prefix + "_"):
            out.append(os.path.join(d, fn))
    out.sort()
    return out


# ----------------------------------------------------------------------------------------------
# Go harness
# ----------------------------------------------------------------------------------------------

def go_env():
    env = dict(os.environ)
    env["GOFLAGS"] = "-mod=mod"
    env["GOPROXY"] = "off"
    env.pop("GOSUMDB", None)
    env.setdefault("GOTOOLCHAIN", "auto")
    return env


def go_test(ctx, pkg, overlays, run, env=None, race=False, timeout=900, tags="verif",
            extra=(), name="gotest", test_timeout=None):
    """Run `go test` inside /repo on package `pkg` ('.' or './z' ...) with white-box files injected
    by -overlay.  overlays: {path relative to /repo: source path under /verif/harness}.
    Rebuilds from /repo's working tree every time.  Returns (rc, output)."""
    d = ctx.sub(name)
    ov = {"Replace": {}}
    for rel, src in overlays.items():
        pkgname = None
        if callable(src):
            # source transformation of the repository file itself (e.g. yield points at lock boundaries):
            # the CURRENT file of the tree under test is read, transformed and overlaid on itself
            orig = os.path.join(REPO, rel)
            with open(orig) as f:
                text = src(f.read())
            tpath = os.path.join(d, "tr_" + rel.replace("/", "_"))
            with open(tpath, "w") as f:
                f.write(text)
            ov["Replace"][orig] = tpath
            continue
        if isinstance(src, tuple):
            src, pkgname = src
        src = src if os.path.isabs(src) else os.path.join(HARNESS, src)
        if not os.path.exists(src):
            raise Inconclusive("overlay source missing: %s" % src)
        if pkgname:      # template: substitute the package clause
            with open(src) as f:
                text = f.read().replace("package PKG", "package " + pkgname, 1)
            src = os.path.join(d, "ov_" + rel.replace("/", "_"))
            with open(src, "w") as f:
                f.write(text)
        ov["Replace"][os.path.join(REPO, rel)] = src
    ovp = os.path.join(d, "overlay.json")
    with open(ovp, "w") as f:
        json.dump(ov, f)
    e = go_env()
    e["VERIF_SCRATCH"] = d
    e["VERIF_SEED"] = str(ctx.seed)
    e["VERIF_TIER"] = ctx.tier
    if env:
        e.update({k: str(v) for k, v in env.items()})
    cmd = ["go", "test", "-vet=off", "-count=1", "-overlay", ovp, "-run", run]
    if tags:
        cmd += ["-tags", tags]
    if race:
        cmd += ["-race"]
    cmd += ["-timeout", test_timeout or ("%ds" % max(60, timeout - 30))]
    cmd += list(extra)
    cmd += [pkg]
    try:
        p = subprocess.run(cmd, cwd=REPO, env=e, stdout=subprocess.PIPE, stderr=subprocess.STDOUT,
                           timeout=timeout, text=True, errors="replace")
    except subprocess.TimeoutExpired as ex:
        out = ex.stdout.decode("utf-8", "replace") if isinstance(ex.stdout, bytes) else (ex.stdout or "")
        with open(os.path.join(d, "go.out"), "w") as f:
            f.write(out)
        return 124, out, d
    with open(os.path.join(d, "go.out"), "w") as f:
        f.write(p.stdout)
    return p.returncode, p.stdout, d


_LOCK_RE = re.compile(r"^(\s*)((?:\w+\.)*\w+)\.(Lock|RLock)\(\)\s*$")
_UNLOCK_RE = re.compile(r"^(\s*)((?:\w+\.)*\w+)\.(Unlock|RUnlock)\(\)\s*$")
_DEFER_UNLOCK_RE = re.compile(r"^(\s*)defer ((?:\w+\.)*\w+)\.(Unlock|RUnlock)\(\)\s*$")


def yield_at_locks(text):
    """Source transformation used with go_test overlays: put a call to verifYield() before every mutex
    acquisition and after every release (also deferred ones) of a Go source file, keeping line numbers.
    verifYield (harness/common/yield.go.txt) randomly yields / spins when a harness switches it on, which
    widens the windows between critical sections - wherever the code under test puts them."""
    out = []
    for ln in text.split("\n"):
        m = _LOCK_RE.match(ln)
        if m:
            out.append("%sverifYield(); %s.%s(); verifHeld.Add(1)" % m.groups())
            continue
        m = _UNLOCK_RE.match(ln)
        if m:
            out.append("%sverifHeld.Add(-1); %s.%s(); verifYield()" % m.groups())
            continue
        m = _DEFER_UNLOCK_RE.match(ln)
        if m:
            out.append("%sdefer func() { verifHeld.Add(-1); %s.%s(); verifYield() }()" % m.groups())
            continue
        out.append(ln)
    return "\n".join(out)


# ----------------------------------------------------------------------------------------------
# Trace validation by TLC (observer / trace specs)
# ----------------------------------------------------------------------------------------------

def validate_trace(ctx, files, module, cfg, trace_path, name=None, timeout=900, heap=None,
                   extra_files=()):
    """Run a trace specification over an NDJSON trace (staged as trace.ndjson).  The trace spec
    must print, from its final state,  <<"OBS-RESULT", bad>>  where bad is a sequence/set of
    records [at |-> line, trace |-> id, why |-> "..."].  Returns (accepted_all_lines, bad, TLCResult)."""
    d = ctx.sub(name or ("validate-" + module))
    shutil.copy(trace_path, os.path.join(d, "trace.ndjson"))
    r = tlc(ctx, files, module, cfg, workers=1, timeout=timeout, heap=heap, workdir=d,
            extra_files=extra_files)
    if r.timed_out:
        raise Inconclusive("trace validation timed out (%s)" % module)
    if r.violated == "Postcondition" or (r.violated and r.violated.startswith("TraceAccepted")):
        return False, [], r
    if not r.ok:
        raise Inconclusive("trace validation failed to run (%s): %s\n%s" %
                           (module, r.error or r.violated, r.out[-1500:]))
    bad = None
    for m in re.finditer(r'<<"OBS-RESULT", (.*?)>>\s*$', r.out, re.M | re.S):
        pass
    m = re.search(r'^<<"OBS-RESULT", (.*)>>\s*$', r.out, re.M)
    if not m:
        # multi-line print
        i = r.out.find('<<"OBS-RESULT",')
        if i < 0:
            raise Inconclusive("trace spec %s printed no OBS-RESULT\n%s" % (module, r.out[-1500:]))
        j = r.out.find("\n\n", i)
        txt = r.out[i:j if j > 0 else None]
        txt = txt.strip()
        val = parse_tla(txt)
    else:
        val = parse_tla('<<"OBS-RESULT", ' + m.group(1) + ">>")
    bad = val[1]
    return True, bad, r


def obs_result(out):
    """Extract the value(s) printed as <<"OBS-RESULT", a, b, ...>> by a trace spec; returns [a, b, ...]."""
    ms = list(re.finditer(r'<<\s*"OBS-RESULT"', out))
    i = ms[-1].start() if ms else -1
    if i < 0:
        raise Inconclusive("trace spec printed no OBS-RESULT (trace not fully consumed?)\n" + out[-1500:])
    # the printed value may span lines; it ends at the matching >>
    depth = 0
    j = i
    while j < len(out):
        if out.startswith("<<", j):
            depth += 1
            j += 2
            continue
        if out.startswith(">>", j):
            depth -= 1
            j += 2
            if depth == 0:
                break
            continue
        j += 1
    val = parse_tla(out[i:j])
    return val[1:]


# ----------------------------------------------------------------------------------------------
# Known findings, evidence, verdicts
# ----------------------------------------------------------------------------------------------

def load_known():
    p = os.path.join(ROOT, "known_findings.json")
    if not os.path.exists(p):
        return []
    with open(p) as f:
        return json.load(f).get("findings", [])


def open_findings(pid):
    return [k for k in load_known() if k.get("property") == pid and k.get("status") == "open"]


def save_replay(ctx, src_path, tag):
    os.makedirs(REPLAY, exist_ok=True)
    dst = os.path.join(REPLAY, "%s-%s-seed%d%s" % (ctx.pid, tag, ctx.seed, os.path.splitext(src_path)[1] or ".txt"))
    shutil.copy(src_path, dst)
    return dst


def save_replay_text(ctx, text, tag, ext=".json"):
    os.makedirs(REPLAY, exist_ok=True)
    dst = os.path.join(REPLAY, "%s-%s-seed%d%s" % (ctx.pid, tag, ctx.seed, ext))
    with open(dst, "w") as f:
        f.write(text)
    return dst


def write_evidence(ctx, level, coverage, assumptions, extra=None):
    os.makedirs(EVIDENCE, exist_ok=True)
    ev = {
        "property_id": ctx.pid,
        "tier": ctx.tier,
        "seed": int(ctx.seed),
        "level": level,
        "coverage": coverage,
        "assumptions": assumptions,
        "wall_s": ctx.wall(),
        "violations": len(ctx.violations),
    }
    if extra:
        ev.update(extra)
    cov = ev["coverage"]
    cov.setdefault("tlc_runs", ctx.tlc_runs)
    cov.setdefault("known_findings_reported", [k["finding"] for k in ctx.known])
    cov.setdefault("conformance_drift", ctx.drift)
    if ctx.notes:
        cov.setdefault("notes", ctx.notes)
    with open(os.path.join(EVIDENCE, ctx.pid + ".json"), "w") as f:
        json.dump(ev, f, indent=1, default=str)
        f.write("\n")


def finish(ctx):
    """Print verdict lines and return the exit code."""
    for k in ctx.known:
        log("KNOWN-FINDING: property=%s %s" % (ctx.pid, k["what"]))
    for v in ctx.violations:
        log("VIOLATION property=%s replay=%s" % (ctx.pid, v.get("replay", "-")))
        log("  what: %s" % v.get("what"))
    return 1 if ctx.violations else 0


def run_check(pid, tier, seed, fn):
    """Wrapper used by bin/check: runs fn(ctx), maps exceptions to exit codes."""
    ctx = Ctx(pid, tier, seed)
    try:
        fn(ctx)
        rc = finish(ctx)
        log("RESULT property=%s tier=%s seed=%d exit=%d wall=%.1fs" % (pid, tier, seed, rc, ctx.wall()))
        return rc
    except Inconclusive as e:
        log("INCONCLUSIVE property=%s: %s" % (pid, e))
        return 2
    finally:
        ctx.cleanup()
