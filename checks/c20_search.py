"""C20 - simd.Search agrees with the reference search and depends only on the contents of xs.

1. TLC model-checks spec/z/Search.tla: every case (nk 0..F, position of the first key >= k incl. none,
   equal/greater, k class zero/mid/ones, 3^4 contents of the 4 key slots after the slice) x the amd64
   kernel transcribed trip by trip.  The toggle FixTail comes from spec/z/search_toggles.json
   (false = code as it is).  With the toggle false the strong property set (C20 as stated) is EXPECTED
   to fail in the model (the lead for F1); the weak set (what the kernel does guarantee) and - in the
   thorough tier - the repaired model (FixTail = TRUE, strong set) must pass.  With the toggle true the strong set must pass.
2. TLC dumps the case enumeration (initial states); every case is realised on the real code
   (order-preserving embeddings of ordinals into uint64, 4 flavours incl. 0, 2^63 and 2^64-1) together
   with a sweep over every even length up to 2*255 and seeded random arrays:
   pass 1 - xs embedded in a larger backing array with an adversarial tail;
   pass 2 - separate process: xs ends at a PROT_NONE guard page (faults are events; a process crash is
            attributed to the last flushed CaseBegin and the pass is resumed behind it);
   pass 3 - 12 goroutines search private arrays (len = 2,4,6 mod 8, answer behind the multiple-of-8
            prefix or none) at the same time, every call logged and judged like a sequential one; in the
            thorough tier also under `go test -race` (a race report in Search becomes a Race event).
3. TLC validates the recorded traces against spec/z/TraceSearch.tla.  Rejections whose reason matches
   an OPEN entry of known_findings.json are printed as KNOWN-FINDING, all others are VIOLATIONs.
"""
import concurrent.futures
import json
import os
import shutil

import vlib
import zsk_common as zc
from vlib import Inconclusive, log

FILES = ["z/Search.tla", "z/MC_Search.cfg", "z/MC_SearchAsIs.cfg", "z/MC_SearchCases.cfg",
         "z/TraceSearch.tla", "z/TraceSearch.cfg"]
OVERLAYS = {
    "z/simd/verif_trace_test.go": ("common/vtrace_test.go.txt", "simd"),
    "z/simd/verif_search_test.go": "z/search_test.go.txt",
}
KC = {"zero": 0, "mid": 1, "ones": 2}
CL = {"lt": 0, "eq": 1, "gt": 2}
MAX_RESTARTS = 12


def toggles():
    with open(os.path.join(vlib.SPEC, "z/search_toggles.json")) as f:
        return json.load(f)


def run(ctx, pid):
    fix = bool(toggles().get("FixTail", False))
    if os.environ.get("VERIF_SEARCH_FIXTAIL"):      # experiments only (scratch worktrees with the repair)
        fix = os.environ["VERIF_SEARCH_FIXTAIL"].lower() in ("1", "true")
    if os.environ.get("VERIF_REPLAY"):
        return replay(ctx, pid, os.environ["VERIF_REPLAY"], fix)
    F = ctx.pick(16, 32)
    quick = ctx.quick()
    consts = {"F": F, "FixTail": zc.tla_bool(fix)}

    # ---- 1. design spec -------------------------------------------------------------------------
    jobs = {}
    w = max(2, vlib.NCPU // 3)
    dumpdir = ctx.sub("cases")
    dump = os.path.join(dumpdir, "cases.dump")
    plan = [("cases", "z/MC_SearchCases.cfg", consts, 2, dumpdir, ("-dump", dump))]
    if fix:
        plan.append(("mc", "z/MC_Search.cfg", consts, w, ctx.sub("mc-strong"), ()))
    else:
        plan.append(("mc", "z/MC_SearchAsIs.cfg", consts, w, ctx.sub("mc-asis"), ()))
        plan.append(("lead", "z/MC_Search.cfg", consts, 2, ctx.sub("mc-lead"), ()))
        if not quick:     # vetting of the modelled repair: thorough tier only
            plan.append(("repair", "z/MC_Search.cfg", {"F": F, "FixTail": "TRUE"}, w, ctx.sub("mc-repair"), ()))
    with concurrent.futures.ThreadPoolExecutor(max_workers=4) as ex:
        for key, cfg, cs, nw, wd, extra in plan:
            jobs[key] = ex.submit(vlib.tlc, ctx, FILES, "Search", zc.cfg_with(cfg, cs), workers=nw,
                                  timeout=1500, workdir=wd, extra=extra)
    res = {k: v.result() for k, v in jobs.items()}
    mc = res["mc"]
    if not mc.ok:
        raise Inconclusive("design spec Search.tla (FixTail=%s) did not pass TLC: %s" % (fix, mc.violated or mc.error))
    if not fix:
        lead = res["lead"]
        if lead.violated in ("NoOverRead", "TailIndependent", "ResultIsSpec"):
            ctx.notes.append("design model of the code as it is (FixTail=FALSE) violates %s: the kernel compares words "
                             "beyond len(xs) (lead for F1)" % lead.violated)
            log("model lead: Search.tla with FixTail=FALSE violates %s (expected while F1 is open)" % lead.violated)
        else:
            raise Inconclusive("Search.tla with FixTail=FALSE no longer shows the over-read (%s)" %
                               (lead.violated or lead.error or "passed"))
        if "repair" in res and not res["repair"].ok:
            raise Inconclusive("repaired design (FixTail=TRUE) does not satisfy C20: %s" %
                               (res["repair"].violated or res["repair"].error))
    if not res["cases"].ok:
        raise Inconclusive("case enumeration failed: %s" % (res["cases"].error or res["cases"].violated))

    # ---- 2. cases -> real code ------------------------------------------------------------------
    cases = []
    for st in zc.parse_dump(dump):
        cases.append([st["nk"], st["p"], 1 if st["eq"] else 0, KC[st["kc"]]] + [CL[c] for c in st["tail"]])
    if len(cases) != res["cases"].distinct:
        raise Inconclusive("dump holds %d cases, TLC reported %d" % (len(cases), res["cases"].distinct))
    cases.sort()
    inp = os.path.join(ctx.scratch, "search_input.json")
    with open(inp, "w") as f:
        json.dump({"cases": cases, "sweepMax": 255, "sweepAll": ctx.pick(12, 64), "sweepKs": ctx.pick(1, 24),
                   "sweepTails": ctx.pick(3, 0), "random": ctx.pick(150, 3000),
                   "randomMax": ctx.pick(600, 1200)}, f)
    rc, out, d = vlib.go_test(ctx, "./z/simd", OVERLAYS, "^TestVerifSearchEmbed$", env={"VERIF_INPUT": inp},
                              timeout=900, name="embed")
    trace1 = os.path.join(d, "search.ndjson")
    if rc != 0 or not os.path.exists(os.path.join(d, "search.summary.json")):
        raise Inconclusive("embed driver failed (rc=%s):\n%s" % (rc, out[-2000:]))
    summ1 = json.load(open(os.path.join(d, "search.summary.json")))

    trace2, summ2 = guard_pass(ctx, inp)

    # concurrent callers on private arrays; in the thorough tier once more under the race detector
    conc = [conc_pass(ctx, inp, calls=ctx.pick(2500, 20000), race=False)]
    if not quick:
        conc.append(conc_pass(ctx, inp, calls=3000, race=True))
    summ3 = {"traces": sum(s["traces"] for _, s in conc), "calls": sum(s["calls"] for _, s in conc),
             "goroutines": conc[0][1]["goroutines"], "race_reports": sum(s["race_reports"] for _, s in conc)}

    trace = os.path.join(ctx.scratch, "search_all.ndjson")
    with open(trace, "w") as f:
        for t in [trace1, trace2] + [t for t, _ in conc]:
            with open(t) as g:
                shutil.copyfileobj(g, f)

    # ---- 3. validation --------------------------------------------------------------------------
    tcfg = zc.cfg_with("z/TraceSearch.cfg", {"FixTail": zc.tla_bool(fix)})
    bad, drift, nev, vres = zc.validate_chunks(ctx, FILES, "TraceSearch", tcfg, trace,
                                               max_events=ctx.pick(6000, 12000), timeout=1500)
    zc.judge(ctx, pid, bad, trace)
    zc.report_drift(ctx, pid, drift, trace)

    samples = zc.sample_events(trace1, 4)
    if bad:
        new, ln = zc.trace_context(trace, bad[0]["at"])
        samples += [json.loads(new), json.loads(ln)]
    runs = [dict(r.summary(), module="Search", run=k) for k, r in res.items()]
    runs.append({"module": "TraceSearch", "runs": len(vres), "events": nev,
                 "wall_s": round(sum(r.wall for r in vres), 1)})
    vlib.write_evidence(ctx, "model_checking", {
        "states": mc.distinct,
        "transitions": mc.generated,
        "cases_enumerated_by_tlc": len(cases),
        "traces_validated_against_impl": summ1["traces"] + summ2["traces"] + summ3["traces"],
        "search_calls_concurrent": summ3["calls"],
        "concurrent_goroutines": summ3["goroutines"],
        "race_detector_pass": not quick,
        "race_reports": summ3["race_reports"],
        "events_validated": nev,
        "search_calls_embed": summ1["calls"],
        "search_calls_guard": summ2["calls"],
        "guard_faults": summ2["faults"],
        "guard_process_crashes": summ2["crashes"],
        "rejected_events": len(bad),
        "fix_tail_toggle": fix,
        "samples": samples,
        "exhaustive": True,
        "tlc_runs": runs,
        "rule": "design spec: every case nk<=%d x first-match position x eq/gt x k class x 81 tail contents, kernel "
                "stepped trip by trip; real code: every one of those cases + sweep over nk 0..255 + seeded random "
                "arrays (duplicates, nk up to 1200), 8 uniform/first-hit tails + 6 array-shaped non-monotone tails (ramp, stale, "
                "trailer, mix, low-then-high) each, every call on a slice with spare capacity and a third also with cap = len, "
                "4 order-preserving embeddings; "
                "guard-page pass over every (array, k)" % F,
    }, ["keys are realised through order-preserving embeddings (0 and 2^64-1 always included); the kernel only compares",
        "the model explores lengths up to 2*%d; longer lengths (to 510 and random up to 2400) only on the real code" % F,
        "memory beyond the slice is varied over 16 words (embed pass) or made inaccessible (guard pass); "
        "'every content' of it is represented by comparison classes of the words the kernel can reach",
        "concurrent pass: interference between callers is only seen if it happens in these runs (12 goroutines, "
        "2500 / 20000 calls each); the race detector (thorough tier) does not instrument the assembly kernel itself",
        "amd64 only: on other architectures Search is the portable Go version"])


def guard_pass(ctx, inp):
    """Run TestVerifSearchGuard in its own process; resume behind a case that killed the process."""
    skip = 0
    parts = []
    crashes = 0
    tot = {"traces": 0, "events": 0, "calls": 0, "faults": 0}
    while True:
        env = {"VERIF_INPUT": inp, "VERIF_SKIP": skip}
        for k in ("VERIF_NO_PANIC_ON_FAULT",):
            if os.environ.get(k):
                env[k] = os.environ[k]
        rc, out, d = vlib.go_test(ctx, "./z/simd", OVERLAYS, "^TestVerifSearchGuard$", env=env, timeout=900,
                                  name="guard")
        tp = os.path.join(d, "search_guard.ndjson" if skip == 0 else "search_guard.%d.ndjson" % skip)
        sp = os.path.join(d, "search_guard.summary.json")
        if rc == 0 and os.path.exists(sp):
            s = json.load(open(sp))
            parts.append(open(tp).read())
            tot["traces"] = s["traces"]
            tot["calls"] = s["calls"]
            tot["faults"] += s["faults"]
            break
        # the process died: find the last announced case
        if not os.path.exists(tp):
            raise Inconclusive("guard driver failed before writing a trace (rc=%s):\n%s" % (rc, out[-2000:]))
        lines = [l for l in open(tp).read().split("\n") if l.strip()]
        # an unflushed tail line may be cut: drop a line that is not valid JSON
        while lines:
            try:
                last = json.loads(lines[-1])
                break
            except ValueError:
                lines.pop()
        if not lines or last.get("ev") != "CaseBegin" or not any(
                s in out for s in ("SIGSEGV", "SIGBUS", "unexpected fault address", "signal")):
            raise Inconclusive("guard driver failed, not attributable to a case (rc=%s):\n%s" % (rc, out[-2000:]))
        crashes += 1
        lines.append(json.dumps({"ev": "Fault", "fn": "Search", "mode": "guard", "k": last["k"], "tail": [],
                                 "msg": "process killed by a memory fault (classified from the last CaseBegin)"},
                                separators=(",", ":")))
        parts.append("\n".join(lines) + "\n")
        tot["faults"] += 1
        skip = last["i"] + 1
        if crashes >= MAX_RESTARTS:
            ctx.notes.append("guard pass stopped after %d process crashes (case %d)" % (crashes, skip))
            tot["calls"] = skip
            break
    trace = os.path.join(ctx.scratch, "search_guard_all.ndjson")
    with open(trace, "w") as f:
        f.write("".join(parts))
    tot["crashes"] = crashes
    return trace, tot


def conc_pass(ctx, inp, calls, race):
    """TestVerifSearchConcurrent; with race=True under `go test -race`: a report whose stack is in
    simd.Search becomes a Race event (judged by the trace spec)."""
    rc, out, d = vlib.go_test(ctx, "./z/simd", OVERLAYS, "^TestVerifSearchConcurrent$",
                              env={"VERIF_INPUT": inp, "VERIF_CONC_CALLS": calls, "VERIF_CONC_G": 12},
                              race=race, timeout=1200, name="conc-race" if race else "conc")
    tp = os.path.join(d, "search_conc.ndjson")
    sp = os.path.join(d, "search_conc.summary.json")
    raced = "WARNING: DATA RACE" in out
    if not os.path.exists(sp) or (rc != 0 and not raced):
        raise Inconclusive("concurrent driver failed (rc=%s):\n%s" % (rc, out[-2000:]))
    summ = json.load(open(sp))
    summ["race_reports"] = 0
    if raced:
        reports = out.split("WARNING: DATA RACE")[1:]
        mine = [r for r in reports if "simd.Search" in r.split("==================")[0]]
        if not mine:
            raise Inconclusive("data race outside simd.Search (harness?):\n%s" % out[-2500:])
        summ["race_reports"] = len(mine)
        detail = " | ".join(l.strip() for l in mine[0].split("\n")[:12] if l.strip())[:600]
        with open(tp, "a") as f:
            f.write(json.dumps({"ev": "Race", "fn": "Search", "reports": len(mine), "detail": detail},
                               separators=(",", ":")) + "\n")
    return tp, summ


def replay(ctx, pid, path, fix):
    """--replay: re-validate a saved trace with the trace specification."""
    tcfg = zc.cfg_with("z/TraceSearch.cfg", {"FixTail": zc.tla_bool(fix)})
    bad, drift, nev, vres = zc.validate_chunks(ctx, FILES, "TraceSearch", tcfg, path, max_events=6000)
    zc.judge(ctx, pid, bad, path, tag="replayed")
    zc.report_drift(ctx, pid, drift, path)
    log("replayed %d events of %s: %d rejected" % (nev, path, len(bad)))
