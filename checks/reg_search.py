"""Registry fragment: simd.Search (C20)."""

CHECKS = {
    "C20": {
        "module": "c20_search",
        "engine": "tlc-search",
        "category": "model_checking",
        "text": "TLC checks spec/z/Search.tla (the amd64 kernel transcribed trip by trip, with the memory after the slice "
                "as part of the state and the FixTail toggle from spec/z/search_toggles.json) over every case: length "
                "0..2F, every position of the first key >= k incl. none, equal/greater, k = 0 / middle / 2^64-1, all "
                "3^4 contents of the key slots behind the slice. Every enumerated case, a sweep over all even lengths "
                "to 510 and seeded random arrays are executed on the real simd.Search and simd.Naive, embedded in an "
                "adversarially filled backing array and, in a second process, in front of a PROT_NONE guard page; the "
                "recorded traces are validated by TLC against spec/z/TraceSearch.tla, which computes the expected "
                "index from the logged ordinal array and flags results that change with the memory beyond the slice.",
        "design_ref": "DESIGN.md section 6 (C20), section 7 (F1)",
        "note": "F = 16 (quick) / 32 (thorough) in the model; longer arrays only on the real code. 'Every content of the "
                "memory that follows the slice' is covered as comparison classes of the words the kernel can reach plus "
                "named adversarial fills and an inaccessible page; an over-read that neither changes a result nor faults "
                "in those runs is not observable. amd64 only. Open finding F1 is reported as KNOWN-FINDING.",
        "technique": "TLA+ design spec model-checked with TLC; TLC-enumerated cases replayed on the Go code; recorded "
                     "NDJSON traces validated by TLC against a TLA+ trace specification",
    },
}
