"""Single table of the checks this framework registers (bin/check dispatches on it, bin/mkmanifest
renders MANIFEST.json from it)."""

DESIGN = "DESIGN.md"

import glob
import importlib
import os
import sys

_here = os.path.dirname(os.path.abspath(__file__))
if _here not in sys.path:
    sys.path.insert(0, _here)

# every checks/reg_*.py contributes a CHECKS dict (and optionally NOT_APPLICABLE: {pid: reason})
CHECKS = {}
NOT_APPLICABLE = {}
_only = os.environ.get("VERIF_REG_ONLY")      # comma-separated fragment names (used while families are being built)
for _f in sorted(glob.glob(os.path.join(_here, "reg_*.py"))):
    if _only and os.path.basename(_f)[4:-3] not in _only.split(","):
        continue
    _m = importlib.import_module(os.path.basename(_f)[:-3])
    CHECKS.update(getattr(_m, "CHECKS", {}))
    NOT_APPLICABLE.update(getattr(_m, "NOT_APPLICABLE", {}))

PENDING_REASON = ("check not built yet in this round - the TLA+ specification and conformance harness for this "
                  "property are still under construction (see DESIGN.md section 12); no claim is made")

ALL_IDS = ["C%02d" % i for i in range(1, 21)]
