"""C19 - z.Bloom: no false negatives, faithful serialization.

1. TLC model-checks the design spec spec/z/Bloom.tla exhaustively (Size 8, Locs 2, 3 operations:
   every hash pair, every operation order) against the C19 predicates.
2. TLC -simulate writes behaviours of the same spec; they become operation sequences for the real
   z.Bloom (model hash values embedded into the real size, edge values included), together with
   seeded random sequences on real sizes and both constructor parameterisations.
3. The recorded NDJSON trace is validated by TLC against spec/z/TraceBloom.tla (observer `bad`,
   design conformance `drift`).
"""
import json
import os

import vlib
from vlib import Inconclusive, log

FILES = ["z/Bloom.tla", "z/MC_Bloom.cfg", "z/TraceBloom.tla", "z/TraceBloom.cfg"]


def run(ctx, pid):
    quick = ctx.quick()
    # 1. exhaustive design check
    mc = vlib.tlc(ctx, FILES, "Bloom", "MC_Bloom.cfg", name="mc", timeout=900)
    if not mc.ok:
        raise Inconclusive("design spec Bloom.tla did not pass TLC: %s" % (mc.violated or mc.error))
    # 2. behaviours -> op sequences
    nsim = ctx.pick(300, 5000)
    cfg = open(os.path.join(vlib.SPEC, "z/MC_Bloom.cfg")).read().replace("MaxOps = 3", "MaxOps = 12")
    cfg = "\n".join(l for l in cfg.split("\n") if not l.startswith(("INVARIANTS", "PROPERTIES")))
    sim = vlib.tlc(ctx, FILES, "Bloom", cfg, name="sim", workers=1, timeout=600,
                   simulate={"num": nsim, "depth": 13, "file": "beh"})
    if not sim.ok:
        raise Inconclusive("simulation failed: %s" % (sim.error or sim.violated))
    scen = []
    for fn in vlib.list_behaviour_files(sim.dir, "beh"):
        steps = vlib.parse_behaviour_file(fn, want_states=False)
        ops = []
        for st in steps:
            if st["action"] == "Init":
                continue
            a = st["args"]
            h, l = (a[0][0], a[0][1]) if a else (0, 0)
            ops.append({"op": st["action"], "h": h, "l": l})
        scen.append({"ops": ops})
    inp = os.path.join(ctx.scratch, "bloom_input.json")
    with open(inp, "w") as f:
        json.dump(scen, f)
    # 3. drive the real filter
    rc, out, d = vlib.go_test(ctx, "./z", {
        "z/verif_trace_test.go": ("common/vtrace_test.go.txt", "z"),
        "z/verif_bloom_test.go": "z/bloom_test.go.txt",
    }, "^TestVerifBloom$", env={"VERIF_INPUT": inp, "VERIF_RANDOM": ctx.pick(200, 5000)}, timeout=900)
    trace = os.path.join(d, "bloom.ndjson")
    if rc != 0 or not os.path.exists(trace):
        if "panic:" in out and "verif_" not in out.split("panic:")[1][:2000].split("goroutine")[0]:
            pass
        raise Inconclusive("bloom driver failed (rc=%s):\n%s" % (rc, out[-2000:]))
    summ = json.load(open(os.path.join(d, "bloom.summary.json")))
    ok, res, r = validate(ctx, trace)
    bad, drift = res
    samples = [json.loads(x) for x in open(trace).read().split("\n")[:6] if x]
    if bad:
        first = sorted(bad, key=lambda b: b["at"])[0]
        rp = vlib.save_replay(ctx, trace, "trace")
        ctx.violations.append({"what": "%s (trace %s, line %s); %d rejected events" %
                               (first["why"], first["trace"], first["at"], len(bad)), "replay": rp})
    if drift:
        ctx.drift = len(drift)
        first = sorted(drift, key=lambda b: b["at"])[0]
        log("CONFORMANCE-DRIFT property=%s %s (line %s); %d events" % (pid, first["why"], first["at"], len(drift)))
    vlib.write_evidence(ctx, "model_checking", {
        "states": mc.distinct,
        "transitions": mc.generated,
        "traces_validated_against_impl": summ["traces"],
        "events_validated": summ["events"],
        "model_behaviours_replayed": len(scen),
        "samples": samples,
        "exhaustive": True,
        "rule": "design spec: all behaviours of <=3 operations over 64 hash pairs, 8 bits, 2 probes; "
                "real code: every simulated behaviour (<=12 ops) embedded into real sizes 512..4096 plus "
                "seeded random sequences, 11 constructor parameterisations; one trace per filter instance",
    }, ["TLC explores the design only for the stated small constants",
        "hash pairs (h,l) are realised as 64-bit hashes with zero / all-one / random middle bits",
        "Has answers are probed on the hashes used in the scenario, not on all 2^64"])


def validate(ctx, trace):
    ok, res, r = validate_raw(ctx, trace)
    return ok, res, r


def validate_raw(ctx, trace):
    import re
    d = ctx.sub("validate")
    import shutil
    shutil.copy(trace, os.path.join(d, "trace.ndjson"))
    r = vlib.tlc(ctx, FILES, "TraceBloom", "TraceBloom.cfg", workers=1, timeout=900, workdir=d)
    if not r.ok:
        raise Inconclusive("trace validation did not run: %s\n%s" % (r.error or r.violated, r.out[-1500:]))
    res = vlib.obs_result(r.out)
    return True, res, r
