"""Registry fragment: z.Allocator (C12)."""

CHECKS = {
    "C12": {
        "module": "c12_alloc",
        "engine": "tlc-alloc",
        "category": "model_checking",
        "text": "TLC checks the design spec spec/z/Allocator.tla (packed (chunk, offset) position, atomic add, overshoot "
                "test after the add, slow path under the mutex with the chunk-index re-check, addBufferAt scan/doubling/cap, "
                "publish; Reset, TrimTo, AllocateAligned) exhaustively for 2-3 threads x 2 requests x sizes "
                "{1,c-1,c,c+1,2c+1}: handed regions pairwise disjoint since the last Reset, inside their chunk, exact "
                "length, aligned, chunk lengths/bases stable, sequential Reset replay acquires no memory, every call "
                "returns (liveness on a tiny configuration). Simulated behaviours of the spec are forced on the real "
                "z.Allocator through gate hooks (build tag verif), free-running runs with 1..32 goroutines are recorded "
                "(also under -race), and every recorded trace is validated by TLC against spec/z/TraceAllocator.tla "
                "(observer = C12 as stated; logged atomic positions and slow-path decisions compared with the model).",
        "design_ref": "DESIGN.md section 6 (C12), 4.4, 5.1, 5.2, 7 (F7), Appendix A.3",
        "note": "Exhaustive only for the small model constants; real-code verdicts cover the schedules forced by the "
                "sampled model behaviours and the seeded free-running runs. Byte-level facts (sentinels intact, zeroed, "
                "copy equal) are harness monitors logged as booleans. The 32-bit offset carry (> 4 GiB of simultaneous "
                "overshoot) is assumed away (MC_Allocator_carry.cfg shows it in the model). Reset/TrimTo only at "
                "quiescent points; replay claim judged for sequential replays. Open finding F7 (Allocate never returns "
                "after TrimTo(max <= first chunk); Reset) is reported as KNOWN-FINDING while known_findings.json lists it as open.",
        "technique": "TLA+ design spec model-checked with TLC; TLC-generated interleavings replayed on the Go code through "
                     "blocking gate hooks; recorded NDJSON traces validated by TLC against a TLA+ trace specification",
    },
}
