"""C18 - access-frequency estimates never under-count, saturate, and age by halving.

1. TLC model-checks spec/cache/Sketch.tla: the byte layer exhaustively (256 byte values x {increment
   low, increment high, reset, clear}: nibble independence, saturation, halving), the cmSketch /
   tinyLFU layer by bounded exploration (4 rows x 4 counters, 4 keys incl. a full collision, nibble
   neighbours and a doorkeeper false positive; the code's XOR index function and a general one), and
   next2Power's sizing (ASSUME).
2. TLC -simulate behaviours of the tinyLFU and the bare-sketch configurations become operation
   sequences for the real objects (model keys realised as hashes with the model's low bits and
   doorkeeper relation); plus every byte-level transition on the real cmRow, seeded random sequences
   on real sizes with the aging reset at every position, and the constructors' sizing.
3. TLC validates the recorded NDJSON trace against spec/cache/TraceSketch.tla (observer `bad` = C18
   as stated over the objects' interface; `drift` = counter table / doorkeeper / incrs / estimates
   differ from the design model).
"""
import concurrent.futures
import json
import os
import re

import vlib
import zsk_common as zc
from vlib import Inconclusive, log

FILES = ["cache/Sketch.tla", "cache/MC_Sketch.tla", "cache/MC_SketchByte.cfg", "cache/MC_SketchLfu.cfg",
         "cache/MC_SketchGen.cfg", "cache/MC_SketchSk.cfg", "cache/TraceSketch.tla", "cache/TraceSketch.cfg"]
OVERLAYS = {
    "verif_trace_test.go": ("common/vtrace_test.go.txt", "ristretto"),
    "verif_sketch_test.go": "cache/sketch_test.go.txt",
}
SIZES = list(range(2, 66)) + [127, 128, 129, 1000, 4095, 4096, 4097, 65535, 65536, 65537, 1000000,
                              1048575, 1048576, 1048577]


def model_constants():
    text = open(os.path.join(vlib.SPEC, "cache/MC_Sketch.tla")).read()
    m = re.search(r"^KeyLow\s*==\s*(<<.*?>>)\s*$", text, re.M)
    a = re.search(r"^AliasPairs\s*==\s*(\{.*\})\s*$", text, re.M)
    if not m or not a:
        raise Inconclusive("KeyLow / AliasPairs not found in MC_Sketch.tla")
    return vlib.parse_tla(m.group(1)), [list(p) for p in vlib.parse_tla(a.group(1))]


def strip_props(cfg_text):
    return "\n".join(l for l in cfg_text.split("\n") if not l.startswith(("INVARIANTS", "PROPERTIES")))


def scenarios(sim, mode, lows, alias):
    out = []
    for fn in vlib.list_behaviour_files(sim.dir, "beh"):
        steps = vlib.parse_behaviour_file(fn, want_states=True)
        if not steps:
            continue
        v0 = steps[0]["state"].get("v0", 0)
        ops = []
        for st in steps[1:]:
            a = st["args"]
            if st["action"] in ("Inc", "SketchInc"):
                ops.append({"op": st["action"], "ks": [a[0]]})
            elif st["action"] == "Push":
                ops.append({"op": "Push", "ks": list(a[0])})
            elif st["action"] in ("Reset", "Clear"):
                ops.append({"op": st["action"], "ks": []})
            else:
                raise Inconclusive("unknown action %s in a simulated behaviour" % st["action"])
        out.append({"mode": mode, "v0": v0, "nc": 4, "lows": lows, "alias": alias, "ops": ops})
    return out


def run(ctx, pid):
    if os.environ.get("VERIF_REPLAY"):
        return replay(ctx, pid, os.environ["VERIF_REPLAY"])
    lows, alias = model_constants()
    # ---- 1. design spec + simulations, in parallel ----------------------------------------------
    w = max(2, vlib.NCPU // 4)
    plan = [
        ("byte", zc.cfg_with("cache/MC_SketchByte.cfg", {}), None, 2),
        ("lfu", zc.cfg_with("cache/MC_SketchLfu.cfg", {"MaxOps": ctx.pick(6, 10)}), None, w),
        ("gen", zc.cfg_with("cache/MC_SketchGen.cfg", {"MaxOps": ctx.pick(6, 9)}), None, w),
        ("sk", zc.cfg_with("cache/MC_SketchSk.cfg", {"MaxOps": ctx.pick(8, 12)}), None, w),
        ("sim-lfu", strip_props(zc.cfg_with("cache/MC_SketchLfu.cfg", {"MaxOps": 14})),
         {"num": ctx.pick(120, 1500), "depth": 15, "file": "beh"}, 1),
        ("sim-sk", strip_props(zc.cfg_with("cache/MC_SketchSk.cfg", {"MaxOps": 20})),
         {"num": ctx.pick(40, 400), "depth": 21, "file": "beh"}, 1),
    ]
    dirs = {name: ctx.sub(name) for name, _, _, _ in plan}
    res = {}
    with concurrent.futures.ThreadPoolExecutor(max_workers=len(plan)) as ex:
        futs = {name: ex.submit(vlib.tlc, ctx, FILES, "MC_Sketch", cfg, workers=nw, timeout=1500,
                                simulate=sim, workdir=dirs[name])
                for name, cfg, sim, nw in plan}
        for name, f in futs.items():
            res[name] = f.result()
    for name in ("byte", "lfu", "gen", "sk"):
        if not res[name].ok:
            raise Inconclusive("design spec Sketch.tla (%s) did not pass TLC: %s\n%s" %
                               (name, res[name].violated or res[name].error, res[name].out[-1200:]))
    for name in ("sim-lfu", "sim-sk"):
        if not res[name].ok:
            raise Inconclusive("simulation %s failed: %s" % (name, res[name].error or res[name].violated))
    byte = res["byte"]
    if byte.generated != 256 + 256 * 4:
        raise Inconclusive("byte layer: expected 256 states x 4 operations, TLC generated %d" % byte.generated)

    # ---- 2. real code ---------------------------------------------------------------------------
    scen = scenarios(res["sim-lfu"], "lfu", lows, alias) + scenarios(res["sim-sk"], "sketch", lows, [])
    inp = os.path.join(ctx.scratch, "sketch_input.json")
    with open(inp, "w") as f:
        json.dump({"scen": scen, "random": ctx.pick(12, 150), "sizes": SIZES}, f)
    rc, out, d = vlib.go_test(ctx, ".", OVERLAYS, "^TestVerifSketch$", env={"VERIF_INPUT": inp}, timeout=900)
    trace = os.path.join(d, "sketch.ndjson")
    sp = os.path.join(d, "sketch.summary.json")
    if rc != 0 or not os.path.exists(sp):
        raise Inconclusive("sketch driver failed (rc=%s):\n%s" % (rc, out[-2500:]))
    summ = json.load(open(sp))
    if summ["rowops"] < 256 * 4:
        raise Inconclusive("byte-level replay incomplete: %d row operations" % summ["rowops"])

    # ---- 3. validation --------------------------------------------------------------------------
    bad, drift, nev, vres = zc.validate_chunks(ctx, FILES, "TraceSketch", "TraceSketch.cfg", trace,
                                               max_events=ctx.pick(2500, 6000), timeout=1500)
    zc.judge(ctx, pid, bad, trace)
    zc.report_drift(ctx, pid, drift, trace)

    samples = [scen[0]] if scen else []
    with open(trace) as f:
        lines = f.read().split("\n")
    samples += [json.loads(lines[i]) for i in (1, 2) if i < len(lines) and lines[i]]
    samples += [json.loads(x) for x in lines[-4:] if x][:3]
    runs = [dict(r.summary(), run=k, module="MC_Sketch") for k, r in res.items()]
    runs.append({"module": "TraceSketch", "runs": len(vres), "events": nev,
                 "wall_s": round(sum(r.wall for r in vres), 1)})
    vlib.write_evidence(ctx, "model_checking", {
        "states": sum(res[k].distinct for k in ("byte", "lfu", "gen", "sk")),
        "transitions": sum(res[k].generated for k in ("byte", "lfu", "gen", "sk")),
        "states_by_config": {k: res[k].distinct for k in ("byte", "lfu", "gen", "sk")},
        "byte_layer_transitions": byte.generated - 256,
        "traces_validated_against_impl": summ["traces"],
        "events_validated": nev,
        "row_operations_replayed": summ["rowops"],
        "model_behaviours_replayed": len(scen),
        "random_base_sequences": summ["random"],
        "sizes_checked": summ["sizes"],
        "rejected_events": len(bad),
        "samples": samples,
        "exhaustive": True,
        "tlc_runs": runs,
        "rule": "byte layer: all 256 byte values x 4 operations (exhaustive). Sketch/TinyLFU layer: all behaviours of "
                "<= MaxOps operations (Inc, Push of 4 chosen key sequences, Reset, Clear) over 4 keys, 4x4 counters, counters starting "
                "at 0 and at 13, XOR and general index functions. Real code: every byte-level transition (+ neighbour "
                "bytes), every simulated behaviour (<= 14 / 20 operations), seeded random sequences on NumCounters "
                "2..64 with the aging reset at every position, sizing for NumCounters 2..65 and 14 large values; one "
                "trace per object instance",
    }, ["TLC explores the sketch layer only for 4 rows x 4 counters and the stated operation bounds",
        "model keys are realised as 64-bit hashes with the model's low bits; the sketch seeds are read white-box and "
        "logged, the trace spec uses them as its index function",
        "the code's index function (hash XOR seed) AND mask makes two keys collide in all rows or in none; the "
        "general-index configuration is checked in the model only",
        "estimates are observed for the keys of each trace's universe (<= 8 keys), not for all 2^64 hashes",
        "sizing for NumCounters above 1048577 is not executed (memory)"])


def replay(ctx, pid, path):
    bad, drift, nev, vres = zc.validate_chunks(ctx, FILES, "TraceSketch", "TraceSketch.cfg", path, max_events=2500)
    zc.judge(ctx, pid, bad, path, tag="replayed")
    zc.report_drift(ctx, pid, drift, path)
    log("replayed %d events of %s: %d rejected" % (nev, path, len(bad)))
