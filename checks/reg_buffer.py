"""Registry fragment: z.Buffer (C11)."""

CHECKS = {
    "C11": {
        "module": "c11_buffer",
        "engine": "tlc-buffer",
        "category": "model_checking",
        "text": "TLC checks the design specs spec/z/Buffer.tla (records and runs of bytes; Grow, the auto-mmap switch and "
                "the WithMaxSize panic transcribed from the code; symbolic sizes around offset+n = curSz, the switch "
                "threshold and maxSz +/- 1) and spec/z/BufferSort.tla (chunked sort + merge tree, chunk size 2) exhaustively "
                "for small constants; behaviours of Buffer.tla, merge-tree shapes of BufferSort.tla scaled to 1024-slice "
                "chunks, slice counts 1..3073 and seeded random histories are executed on the real z.Buffer (calloc, mmap "
                "tmp/persistent files, calloc with WithAutoMmap, with and without WithMaxSize); the harness decodes the "
                "buffer's contents back into payload ids and every recorded trace is validated by TLC against "
                "spec/z/TraceBuffer.tla (observer = C11 as stated; capacity/mode compared with the design's growth rule).",
        "design_ref": "DESIGN.md section 6 (C11), section 4.4 (Buffer.tla)",
        "note": "Assumes TLC and the Go toolchain; design explored exhaustively only for capacity 64 and 3 (quick) / 5 "
                "(thorough) operations, sorter for <= 7 / 11 slices with chunks of 2; real-code verdicts cover the histories "
                "executed (capacities up to 64 MiB, the 1 GiB growth cap is not reached); WithMaxSize is read as a limit on "
                "the used length, as the code tests it.",
        "technique": "TLA+ design spec model-checked with TLC; TLC-generated behaviours replayed on the Go code; "
                     "recorded NDJSON traces validated by TLC against a TLA+ trace specification",
    },
}
