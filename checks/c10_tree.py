"""C10 / C16 - z.Tree (z/btree.go): a correct uint64 map with an exact DeleteBelow (C10), which a
persistent tree reopens to the same contents and statistics (C16).

1. TLC model-checks the page-level design spec spec/z/TreePages.tla (refinement of the abstract map
   spec/z/TreeMap.tla, sortedness/routing, free list, reopen) exhaustively for small constants, with the
   toggles FixStaleMax / FixReinitBound taken from spec/z/tree_toggles.json (= the state of /repo's
   code).  A counterexample is a *lead*: it is turned into an operation history, replayed on the real
   tree, and only the observer's verdict on the recorded trace counts.  To explore the rest of the
   design the corresponding repair is then modelled (toggle TRUE) and TLC is run again.
2. tlc -simulate on TreePages (invariants on) and TreeMap gives longer histories; together with
   seeded online generators (sequential, random, clustered around node boundaries, embedding anchors)
   they are executed by harness/z/tree_test.go.txt on the real tree for page sizes 80..4096, in memory
   and file-backed with close/reopen at many positions, and for C16 on files filled exactly to the last
   page.
3. Every recorded trace is validated by TLC against spec/z/TraceTree.tla: `bad` = C10/C16 as stated
   (observer = the abstract map), `drift` = the real pages differ from the page model.
4. Growth of the backing buffer / file (the handful of reallocations in a tree's life, after which every
   slice obtained before is stale): (a) TLC searches spec/z/TreeGoals.tla for one behaviour per coverage
   goal - reallocation below the root, in the first / second page of a root split, a root split
   reallocating after a reopen, a file extended again after it was reopened having been extended twice -
   with the scaled minSize as part of the behaviour; they are replayed on real trees built with that
   minSize ("scaled": the harness's copies of NewTree / Reset / NewTreePersistent with minSize replaced),
   as are half of the simulated behaviours and a third of the small-page seeded histories, all with the
   page structure and len/cap of t.data compared with the model; (b) a bulk family at the real minSize:
   10^5 keys in ascending / descending / alternating / strided order with compact checkpoints (every
   key's Get compared with its known value, every IterateKV callback classified, Stats; judged by
   TraceTree.tla), memory- and file-backed, for seeded page sizes out of 80..272 step 16, 512, 4096
   (thorough: all), and for the (page size, order, backing) combinations in which a count-level planner
   in the harness predicts a root split that coincides with a reallocation (measured: field rsr).
C10 drives memory-backed and some file-backed trees and reports the map clauses; C16 drives file-backed
trees and reports the reopen clauses plus map clauses on reopened trees.
"""
import json
import os
import random
import re
import shutil
import threading

import vlib
from vlib import Inconclusive, log

SPEC_FILES = ["z/TreeMap.tla", "z/TreeOps.tla", "z/TreePages.tla", "z/TreeGoals.tla", "z/TraceTree.tla"]
PAGE_SIZES = [80, 96, 128, 256, 4096]
# bulk growth family: every small page size (a different number of keys per node each) plus 512 and 4096
BULK_SIZES = list(range(80, 273, 16)) + [512, 4096]
# coverage goals of spec/z/TreeGoals.tla per property: (goal, file-backed?, NKeys, depth)
GOALS_FOR = {
    "C10": [("G_ReallocBelowRoot", False, 10, 16), ("G_ReallocRootRight", False, 10, 16),
            ("G_ReallocRootLeft", False, 10, 16), ("G_ReallocRootLeft", True, 10, 16)],
    "C16": [("G_GrowAfterReopen2", True, 20, 32), ("G_ReallocRootAfterReopen", True, 12, 18),
            ("G_ReallocRootLeft", True, 10, 16)],
}
GOAL_MINSIZES = "{" + ",".join(str(x) for x in range(168, 329, 8)) + "}"
# which modelled repair belongs to which design invariant
REPAIR_OF = {"MapRefinement": "FixStaleMax", "IterateExact": "FixStaleMax",
             "ReopenNoPanic": "FixReinitBound", "ReopenSame": "FixReinitBound"}
TOGGLES = ("FixStaleMax", "FixReinitBound")


def load_toggles():
    # VERIF_TREE_TOGGLES: another toggle file, for experiments against a scratch worktree (VERIF_REPO)
    path = os.environ.get("VERIF_TREE_TOGGLES") or os.path.join(vlib.SPEC, "z/tree_toggles.json")
    with open(path) as f:
        j = json.load(f)
    return {k: bool(j[k]) for k in TOGGLES}


def tla_bool(b):
    return "TRUE" if b else "FALSE"


def cfg_text(name, toggles, **consts):
    """Read spec/z/<name>, overwrite the toggle lines and any other `Const = value` line."""
    with open(os.path.join(vlib.SPEC, "z", name)) as f:
        text = f.read()
    vals = {k: tla_bool(v) for k, v in toggles.items()}
    vals.update({k: (tla_bool(v) if isinstance(v, bool) else str(v)) for k, v in consts.items()})
    for k, v in vals.items():
        text, n = re.subn(r"(?m)^(\s*%s\s*=\s*)\S+\s*$" % re.escape(k), lambda m: m.group(1) + v, text)
        if n != 1:
            raise Inconclusive("cfg %s has no single line for constant %s" % (name, k))
    return text


def cfg_consts(text):
    out = {}
    for m in re.finditer(r"(?m)^\s*(\w+)\s*=\s*(\S+)\s*$", text):
        out[m.group(1)] = m.group(2)
    return out


# ----------------------------------------------------------------------------------------------
# behaviours / counterexamples -> operation lists
# ----------------------------------------------------------------------------------------------

def op_of(action, args):
    if action in ("DoSet", "MapSet", "GSet"):
        return {"op": "Set", "k": args[0], "v": args[1]}
    if action in ("DoDeleteBelow", "MapDeleteBelow", "GDel"):
        return {"op": "Del", "v": args[0]}
    if action in ("DoRewrite", "MapRewrite"):
        return {"op": "Rw", "a": args[0], "b": args[1]}
    if action in ("DoReset", "MapReset"):
        return {"op": "Reset"}
    if action in ("DoReopen", "MapCloseReopen", "GReopen"):
        return {"op": "Reopen"}
    return None


_STATE = re.compile(r"^State \d+: <(\w+)(?:\((.*?)\))? line \d+", re.M)


def counterexample_ops(out):
    ops = []
    for m in _STATE.finditer(out):
        args = vlib.parse_tla("<<" + m.group(2) + ">>") if m.group(2) else []
        op = op_of(m.group(1), args)
        if op:
            ops.append(op)
    return ops


def behaviour_ops(path):
    ops = []
    for st in vlib.parse_behaviour_file(path, want_states=False):
        op = op_of(st["action"], st["args"])
        if op:
            ops.append(op)
    return ops


def fmt_ops(ops, limit=12):
    def one(o):
        if o["op"] == "Set":
            return "Set(%d,%d)" % (o["k"], o["v"])
        if o["op"] == "Del":
            return "DeleteBelow(%d)" % o["v"]
        if o["op"] == "Rw":
            return "IterateKV(%d->%d)" % (o["a"], o["b"])
        return o["op"]
    s = "; ".join(one(o) for o in ops[:limit])
    return s + ("; ..." if len(ops) > limit else "")


# ----------------------------------------------------------------------------------------------
# 1. design spec
# ----------------------------------------------------------------------------------------------

def design_check(ctx, pid, toggles):
    """Exhaustive TLC on TreePages.  Returns (final TLCResult, toggles it passed with, leads, consts)."""
    mode = "mem" if pid == "C10" else "pers"
    name = "MC_TreePages_%s_%s.cfg" % (mode, ctx.tier)
    tmo = ctx.pick(400, 1500)
    tog = dict(toggles)
    leads = []
    # the abstract map on its own (tiny)
    tm = vlib.tlc(ctx, SPEC_FILES, "TreeMap", "z/MC_TreeMap.cfg", name="mc-treemap", timeout=300)
    if not tm.ok:
        raise Inconclusive("TreeMap.tla did not pass TLC: %s" % (tm.violated or tm.error))
    for attempt in range(len(TOGGLES) + 1):
        text = cfg_text(name, tog)
        r = vlib.tlc(ctx, SPEC_FILES, "TreePages", text, name="mc-%s-%d" % (mode, attempt), timeout=tmo)
        if r.ok:
            extra = []
            if ctx.tier == "thorough":
                # second exhaustive configuration: fewer keys and operations, three value ids
                t2 = cfg_text("MC_TreePages_%s_thorough_v3.cfg" % mode, tog)
                r2 = vlib.tlc(ctx, SPEC_FILES, "TreePages", t2, name="mc-%s-v3" % mode, timeout=tmo)
                if not r2.ok:
                    if r2.violated in REPAIR_OF:
                        ops = counterexample_ops(r2.out)
                        log("design lead (second configuration): %s violated: %s" % (r2.violated, fmt_ops(ops, 30)))
                        leads.append({"invariant": r2.violated, "ops": ops, "toggles": dict(tog),
                                      "consts": cfg_consts(t2), "generated": r2.generated, "distinct": r2.distinct})
                    else:
                        raise Inconclusive("design spec TreePages.tla (second thorough configuration) failed: %s\n%s" %
                                           (r2.violated or r2.error, r2.out[-1200:]))
                extra.append(dict(cfg_consts(t2), generated=r2.generated, distinct=r2.distinct, depth=r2.depth))
            consts = cfg_consts(text)
            consts["_extra_runs"] = extra
            return r, tog, leads, consts
        if not r.violated or r.violated not in REPAIR_OF:
            raise Inconclusive("design spec TreePages.tla (%s, toggles %s) failed: %s\n%s" %
                               (name, tog, r.violated or r.error, r.out[-1200:]))
        fix = REPAIR_OF[r.violated]
        ops = counterexample_ops(r.out)
        log("design lead: %s violated with %s after %d steps: %s" %
            (r.violated, ", ".join("%s=%s" % kv for kv in sorted(tog.items())), len(ops), fmt_ops(ops)))
        leads.append({"invariant": r.violated, "ops": ops, "toggles": dict(tog),
                      "consts": cfg_consts(text), "generated": r.generated, "distinct": r.distinct})
        if tog[fix]:
            raise Inconclusive("design spec violates %s although %s is modelled as repaired: %s" %
                               (r.violated, fix, fmt_ops(ops)))
        tog[fix] = True      # model the repair, only to explore the rest of the design
    raise Inconclusive("design spec still fails with every repair modelled")


# ----------------------------------------------------------------------------------------------
# 2. scenarios
# ----------------------------------------------------------------------------------------------

def simulate(ctx, module, cfgname, toggles, num, depth, name, **consts):
    text = cfg_text(cfgname, toggles if module == "TreePages" else {}, **consts)
    # -simulate num= is per worker
    w = 1 if num < 400 else 4
    r = vlib.tlc(ctx, SPEC_FILES, module, text, name=name, workers=w, timeout=ctx.pick(300, 900),
                 simulate={"num": (num + w - 1) // w, "depth": depth, "file": "beh"})
    c = cfg_consts(text)
    behs = [behaviour_ops(fn) for fn in vlib.list_behaviour_files(r.dir, "beh")]
    lead = None
    if not r.ok:
        if r.violated in REPAIR_OF:
            ops = counterexample_ops(r.out)
            log("design lead (simulation): %s violated: %s" % (r.violated, fmt_ops(ops, 40)))
            lead = {"invariant": r.violated, "ops": ops, "toggles": dict(toggles), "consts": c,
                    "generated": r.generated, "distinct": r.distinct}
        else:
            raise Inconclusive("simulation of %s failed: %s\n%s" % (module, r.violated or r.error, r.out[-1200:]))
    return behs, c, r, lead


def lead_scenarios(lead, pers_default):
    """A design counterexample as scenarios for the real tree."""
    c = lead["consts"]
    nk, nv = int(c["NKeys"]), int(c["NVals"])
    pers = c.get("Persistent", "FALSE") == "TRUE"
    inv = lead["invariant"]
    out = []
    if lead.get("ms"):        # found in a scaled configuration: replay on a tree with the same minSize
        for emb in (0, 1, 6):
            out.append({"src": "lead:" + inv, "u": nk, "w": nv + 1, "ps": 80, "pers": pers, "emb": emb,
                        "wb": True, "ms": lead["ms"], "ops": list(lead["ops"])})
        return out
    if inv in ("ReopenNoPanic", "ReopenSame"):
        # The model's file (MinSize = 5 pages) is the scaled 1 MiB file: the state "the allocation
        # frontier stands on the last, partial page of the file" is reached on the real tree by
        # continuing with sequential Sets (FillFull) after the counterexample's own operations.
        U = 40000
        step = (U - 1) // (nk - 1)
        def big(k):
            return U if k == nk else 1 + (k - 1) * step
        for ps in (80, 4096):
            ops = [dict(o, k=big(o["k"])) if o["op"] == "Set" else dict(o) for o in lead["ops"]]
            out.append({"src": "lead:" + inv, "u": U, "w": nv + 1, "ps": ps, "pers": True, "emb": 0 if ps == 80 else 5,
                        "wb": False, "ops": ops + [{"op": "FillFull", "v": 1}, {"op": "Reopen"}]})
        ops = list(lead["ops"]) + [{"op": "Reopen"}]
        out.append({"src": "lead:" + inv, "u": nk, "w": nv + 1, "ps": 80, "pers": True, "emb": 0, "wb": True, "ops": ops})
    else:
        for i, ps in enumerate(PAGE_SIZES):
            out.append({"src": "lead:" + inv, "u": nk, "w": nv + 1, "ps": ps, "pers": pers, "emb": i,
                        "wb": ps == 80, "ops": list(lead["ops"])})
    return out


def model_scenarios(behs, consts, src, pers, rnd, extra_sizes=1):
    """Behaviours of the design spec: at the model's own page size (80 bytes = 4 keys per node, page
    structure compared with the model) and at `extra_sizes` other page sizes."""
    nk, nv = int(consts["NKeys"]), int(consts["NVals"])
    out = []
    for i, ops in enumerate(behs):
        if not ops:
            continue
        # every second behaviour of the page model runs on a "scaled" tree: minSize = the model's MinSize
        # (5 pages), so the real buffer / file is reallocated / extended where the model's is
        ms = int(consts.get("MinSize", 0)) if i % 2 == 0 else 0
        out.append({"src": src, "u": nk, "w": nv + 1, "ps": 80, "pers": pers, "emb": rnd.randrange(16),
                    "wb": True, "ms": ms, "ops": ops})
        for j in range(extra_sizes):
            ps = PAGE_SIZES[1 + (i + j) % 4]
            out.append({"src": src, "u": nk, "w": nv + 1, "ps": ps, "pers": pers, "emb": rnd.randrange(16),
                        "wb": False, "ops": ops})
    return out


def goal_behaviours(ctx, pid, toggles):
    """One behaviour per coverage goal of TreeGoals.tla (TLC simulation with the goal as invariant).
    Returns (scenarios for the real tree, summary, design leads)."""
    from concurrent.futures import ThreadPoolExecutor
    safe = all(toggles.values())      # the design invariants only where the design is expected to hold

    def one(job):
        goal, pers, nk, depth = job
        text = cfg_text("GOAL_TreeGoals.cfg", toggles, Persistent=pers, NKeys=nk, MinSizes=GOAL_MINSIZES)
        text += "INVARIANTS %s%s\n" % (goal, " GSafe" if safe else "")
        r = vlib.tlc(ctx, SPEC_FILES, "TreeGoals", text, name="goal-%s-%s" % (goal, "pers" if pers else "mem"),
                     workers=2, timeout=240, simulate={"num": 400000, "depth": depth, "file": None},
                     seed=ctx.seed * 31 + 7)
        return job, r, cfg_consts(text)

    jobs = GOALS_FOR[pid]
    scen, summ, dleads = [], [], []
    with ThreadPoolExecutor(max_workers=len(jobs)) as ex:
        for (goal, pers, nk, depth), r, c in ex.map(one, jobs):
            ops = counterexample_ops(r.out) if r.violated else []
            m = re.search(r"/\\ ms = (\d+)", r.out)
            ms = int(m.group(1)) if m else 0
            reached = r.violated == goal and bool(ops) and ms > 0
            summ.append({"goal": goal, "file_backed": pers, "reached_by_tlc": reached, "minsize": ms,
                         "behaviour": fmt_ops(ops, 40), "wall_s": round(r.wall, 1)})
            if reached:
                for emb in (0, 1, 6):
                    scen.append({"src": "goal:" + goal, "u": nk, "w": int(c["NVals"]) + 1, "ps": 80, "pers": pers,
                                 "ms": ms, "emb": emb, "wb": True, "ops": ops})
            elif r.violated == "GSafe" and ops and ms:
                log("design lead (scaled configuration, minSize %d): GSafe violated: %s" % (ms, fmt_ops(ops, 40)))
                dleads.append({"invariant": "GSafe", "ops": ops, "toggles": dict(toggles), "ms": ms,
                               "consts": dict(c, Persistent="TRUE" if pers else "FALSE"),
                               "generated": r.generated, "distinct": r.distinct})
            elif r.timed_out:
                # a loaded machine must not turn a coverage aid into an inconclusive check
                ctx.notes.append("coverage goal %s: TLC simulation timed out (goal behaviour not replayed in this run)" % goal)
            elif r.error:
                raise Inconclusive("goal search %s failed: %s\n%s" % (goal, r.error, r.out[-800:]))
            else:
                ctx.notes.append("coverage goal %s not reached by TLC simulation within its budget" % goal)
    return scen, summ, dleads


def bulk_scenarios(pid, rnd, quick, seed):
    """Large trees with compact checkpoints (harness: bulk): growth of the buffer / file several times,
    DeleteBelow and reuse at scale, reopen after the file was extended twice and further growth; and the
    planner's (page size, order, backing) combinations in which a root split coincides with a
    reallocation (bulk-goal; resolved inside the harness)."""
    out = []
    orders = ["asc", "desc", "alt", "stride"]
    goal_idx = [seed % 2, 2 + seed % 2] if quick else [0, 1, 2, 3]
    if pid == "C16":
        goal_idx = [2 + seed % 2] if quick else [2, 3]
    for j in goal_idx:
        out.append({"src": "bulk-goal", "gen": "bulk-goal", "n": j, "u": 10, "w": rnd.randint(3, 5), "ps": 80,
                    "pers": False, "emb": rnd.choice([0, 1, 2, 5])})
    sizes = BULK_SIZES if not quick else sorted({4096, rnd.choice(BULK_SIZES[:-1]), rnd.choice(BULK_SIZES[:13])})
    for i, ps in enumerate(sizes):
        w = rnd.randint(3, 5)
        if pid == "C10" or not quick:
            order = orders[(i + seed) % 4] if ps < 4096 else orders[(i + seed) % 2]
            out.append({"src": "bulk-mem", "bulk": True, "u": 420000, "w": w, "ps": ps, "pers": False,
                        "emb": rnd.choice([0, 1, 2]), "ops": [
                            {"op": "BSet", "k": 330000, "a": 2, "b": 5, "p": order},
                            {"op": "BDel", "v": rnd.randint(2, w)},
                            {"op": "BSet", "k": 20000, "b": 2, "p": orders[(i + seed + 1) % 2]}]})
        if pid == "C16" or not quick or ps == 4096:
            order = orders[(i + seed) % 2] if ps >= 512 else orders[(i + seed) % 3]
            out.append({"src": "bulk-file", "bulk": True, "u": 300000, "w": w, "ps": ps, "pers": True,
                        "emb": rnd.choice([0, 1, 2]), "ops": [
                            {"op": "BSet", "k": 120000, "a": 2, "b": 4, "p": order}, {"op": "Reopen"},
                            {"op": "BSet", "k": 120000, "a": 1, "b": 3, "p": order}, {"op": "Reopen"},
                            {"op": "BDel", "v": rnd.randint(2, w)}, {"op": "Reopen"},
                            {"op": "BSet", "k": 4000, "b": 1, "p": "asc"}, {"op": "Reopen"}]})
    return out


def with_reopens(ops, rnd, p):
    """A TreeMap history for a file-backed tree: Reopen at random positions; Reset is dropped (C16
    quantifies over Set/DeleteBelow histories, and Reset on a mapped file clears and syncs 3 MiB)."""
    out = []
    for o in ops:
        if o["op"] == "Reset":
            continue
        out.append(o)
        if rnd.random() < p:
            out.append({"op": "Reopen"})
    return out


def random_scenarios(n, pers_share, rnd, quick):
    """Descriptors of online-generated histories (the operations are drawn inside the harness from
    VERIF_SEED): universe and length scale with the page size so that splits, root splits (small
    pages), page recycling and reuse happen."""
    out = []
    gens = ["seq", "rand", "boundary", "edges"]
    for i in range(n):
        ps = PAGE_SIZES[i % len(PAGE_SIZES)] if rnd.random() < 0.8 else rnd.choice(PAGE_SIZES[:3])
        mk = ps // 16 - 1
        size = rnd.random()
        if mk <= 7:
            u = rnd.randint(6, 3 * mk + 4) if size < 0.5 else rnd.randint(3 * mk, 12 * mk + 10)
        elif mk == 15:
            u = rnd.randint(6, 40) if size < 0.5 else rnd.randint(40, 150)
        else:
            u = rnd.randint(6, 60) if size < 0.6 else rnd.randint(270, 340 if quick else 600)
        nops = int(u * rnd.uniform(1.2, 2.5)) + 6
        nops = min(nops, 160 if quick else 700)
        # a third of the small-page histories on a scaled tree (minSize of 3..12 pages, any multiple of 8)
        ms = 0
        if mk <= 7 and rnd.random() < 0.35:
            ms = 8 * rnd.randint((2 * ps + 8 + 7) // 8 + 1, 12 * ps // 8)
        out.append({"src": "random-" + gens[i % 4] + ("-scaled" if ms else ""), "gen": gens[i % 4], "n": nops, "u": u,
                    "w": rnd.randint(2, 6), "ps": ps, "pers": rnd.random() < pers_share, "ms": ms,
                    "emb": rnd.randrange(16), "wb": mk == 4 and u <= 24 and rnd.random() < 0.5})
    return out


def fullfile_scenarios(sizes, rnd):
    """C16: fill a fresh file exactly up to its last (partial) page, reopen, go on (the file grows),
    reopen again, delete (pages are recycled), reopen, insert (recycled pages are reused), reopen."""
    out = []
    for ps in sizes:
        U = 40000
        tail = [{"op": "Reopen"}]
        tail += [{"op": "Set", "k": k, "v": 2} for k in (39990, 39991, 39992)]       # the file grows
        tail += [{"op": "Reopen"}, {"op": "Del", "v": 2}, {"op": "Reopen"}]          # pages are recycled
        tail += [{"op": "Set", "k": k, "v": 3} for k in (39980, 3, 39981)]           # and reused
        tail += [{"op": "Reopen"}]
        out.append({"src": "fullfile", "u": U, "w": 3, "ps": ps, "pers": True, "emb": rnd.choice([0, 1, 5]),
                    "wb": False, "ops": [{"op": "Set", "k": U, "v": 2}, {"op": "FillFull", "v": 1}] + tail})
    # ... and on scaled trees whose file is larger than an OS page and grows twice: filled to its very end before
    # every reopen (file sizes that are not a multiple of the OS page size, last whole tree page in use)
    for ps in (80, 128):
        U = 6000
        ms = 8 * rnd.randint(520, 700)
        ops = [{"op": "Set", "k": U, "v": 2}, {"op": "FillFull", "v": 1}, {"op": "Reopen"}]
        for j in range(2):
            ops += [{"op": "Set", "k": U - 10 - j, "v": 2}, {"op": "FillFull", "v": 1}, {"op": "Reopen"}]
        ops += [{"op": "Set", "k": U - 20, "v": 3}, {"op": "Reopen"}]
        out.append({"src": "fullfile-scaled", "u": U, "w": 3, "ps": ps, "pers": True, "ms": ms, "emb": rnd.choice([0, 1, 5]),
                    "wb": False, "ops": ops})
    return out


# ----------------------------------------------------------------------------------------------
# 3. trace validation
# ----------------------------------------------------------------------------------------------

_sub_lock = threading.Lock()


def _lock_sub(ctx):
    """ctx.sub() is not thread-safe; serialise it for the parallel drivers / validators."""
    if getattr(ctx, "_tree_locked", False):
        return
    orig = ctx.sub

    def sub(name):
        with _sub_lock:
            return orig(name)
    ctx.sub = sub
    ctx._tree_locked = True


def validate(ctx, trace, toggles, name="validate", workdir=None):
    d = workdir or ctx.sub(name)
    shutil.copy(trace, os.path.join(d, "trace.ndjson"))
    cfg = cfg_text("TraceTree.cfg", toggles)
    r = vlib.tlc(ctx, SPEC_FILES, "TraceTree", cfg, workers=1, timeout=ctx.pick(600, 1500), workdir=d,
                 heap="6g")
    if not r.ok:
        raise Inconclusive("trace validation did not run: %s\n%s" % (r.error or r.violated, r.out[-1500:]))
    bad, drift, cnt = vlib.obs_result(r.out)
    # cnt: exact number of records per (prop, why); bad / drift hold at most 25 records of each class
    counts = {}
    if isinstance(cnt, dict):
        for k, v in cnt.items():
            counts[(k[0], k[1])] = v
    return bad, drift, counts


def extract_trace(path, at):
    """Lines of the trace (New .. next New) that contains 1-based line `at`."""
    with open(path) as f:
        lines = f.read().split("\n")
    i = at - 1
    while i > 0 and '"ev":"New"' not in lines[i]:
        i -= 1
    j = at
    while j < len(lines) and '"ev":"New"' not in lines[j]:
        j += 1
    return [x for x in lines[i:j] if x]


def bulk_coverage(paths):
    """White-box facts recorded by the bulk scenarios (measured on the real tree, not judged)."""
    cov = {"traces": 0, "keys_inserted": 0, "checkpoints": 0, "capacity_changes": 0, "root_splits": 0,
           "root_splits_with_reallocation": 0, "reopens": 0, "goal_traces": 0,
           "goal_traces_with_reallocation_in_last_step": 0}
    for tp in paths:
        last = None
        prev_cl = cur_cl = None
        goal = False

        def close():
            if last is not None:
                cov["keys_inserted"] += last["n"]
                cov["capacity_changes"] += last["grows"]
                cov["root_splits"] += last["rsplit"]
                cov["root_splits_with_reallocation"] += last["rsr"]
            if goal and prev_cl is not None and cur_cl is not None and prev_cl != cur_cl:
                cov["goal_traces_with_reallocation_in_last_step"] += 1
        with open(tp) as f:
            for ln in f:
                if '"ev":"BNew"' in ln or '"ev":"New"' in ln:
                    close()
                    last, prev_cl, cur_cl = None, None, None
                    goal = '"src":"goal:' in ln
                    if '"ev":"BNew"' in ln:
                        cov["traces"] += 1
                    if goal:
                        cov["goal_traces"] += 1
                if '"ev":"B' in ln:
                    e = json.loads(ln)
                    last = e["c"]
                    cov["checkpoints"] += 1
                    if e["ev"] == "BReopen":
                        cov["reopens"] += 1
                elif goal:
                    m = re.search(r'"wb":\{"cl":(\d+)', ln)
                    if m:
                        prev_cl, cur_cl = cur_cl, int(m.group(1))
        close()
    return cov


def known_entry(pid, why):
    for k in vlib.load_known():
        if k.get("status") != "open":
            continue
        if k.get("property") != pid and pid not in k.get("also", []):
            continue
        if k.get("signature") == why:
            return k
    return None


def describe(lines, at_in_trace):
    """Short human-readable account of a rejected event (ids only)."""
    try:
        new = json.loads(lines[0])
        ev = json.loads(lines[at_in_trace])
    except Exception:
        return ""
    hist = []
    for x in lines[1:at_in_trace + 1]:
        e = json.loads(x)
        if e["ev"] == "Set":
            hist.append("Set(%d,%d)" % (e["k"], e["v"]))
        elif e["ev"] == "Del":
            hist.append("DeleteBelow(%d)" % e["ts"])
        elif e["ev"] == "SetMany":
            hist.append("Set x%d" % e["n"])
        else:
            hist.append(e["ev"] + ("(%s: %s)" % (e.get("in"), e.get("msg", "")[:80]) if e["ev"] == "Panic" else ""))
    if len(hist) > 14:
        hist = hist[:4] + ["...(%d)..." % (len(hist) - 12)] + hist[-8:]
    extra = ""
    if ev.get("ev") == "Del":
        extra = " lmax=%s" % ev.get("lmax")
    return "src=%s pageSize=%s pers=%s u=%s w=%s: %s%s" % (new.get("src"), new.get("ps"), new.get("pers"),
                                                          new.get("u"), new.get("w"), "; ".join(hist), extra)


def report(ctx, pid, per_file):
    """per_file: [(path, bad, drift, counts)].  Fills ctx.violations / ctx.known / ctx.drift.
    Returns {why: exact number of rejected events} for property pid."""
    groups = {}
    totals = {}
    ndrift = 0
    first_drift = None
    for path, bad, drift, counts in per_file:
        for b in bad:
            if b.get("prop") != pid:
                continue
            groups.setdefault(b["why"], []).append((path, b))
        for (prop, why), n in counts.items():
            if prop == pid:
                totals[why] = totals.get(why, 0) + n
            elif prop == "drift":
                ndrift += n
        if drift and first_drift is None:
            first_drift = (path, sorted(drift, key=lambda x: x["at"])[0])
    for why, items in sorted(groups.items()):
        items.sort(key=lambda pb: (pb[0], pb[1]["at"]))
        path, b = items[0]
        lines = extract_trace(path, b["at"])
        # position of the rejected event inside the extracted trace
        with open(path) as f:
            all_lines = f.read().split("\n")
        start = b["at"] - 1
        while start > 0 and '"ev":"New"' not in all_lines[start]:
            start -= 1
        desc = describe(lines, b["at"] - 1 - start)
        k = known_entry(pid, why)
        n = totals.get(why, len(items))
        if k:
            ctx.known.append({"finding": k["id"], "what": "%s [%s]: %s (%d rejected events; first: %s)" %
                              (k["id"], k.get("status"), k.get("what", why), n, desc)})
        else:
            tag = "trace-" + re.sub(r"[^a-z0-9]+", "-", why.lower())[:40].strip("-")
            rp = vlib.save_replay_text(ctx, "\n".join(lines) + "\n", tag, ext=".ndjson")
            ctx.violations.append({"what": "%s (%d rejected events; first: trace %s, %s)" %
                                   (why, n, b["trace"], desc), "replay": rp})
    if ndrift:
        ctx.drift = ndrift
        path, d = first_drift
        log("CONFORMANCE-DRIFT property=%s %s (trace %s, line %s of %s); %d events" %
            (pid, d["why"], d["trace"], d["at"], os.path.basename(path), ndrift))
    return totals


# ----------------------------------------------------------------------------------------------
# the check
# ----------------------------------------------------------------------------------------------

def replay_only(ctx, pid, path, toggles):
    bad, drift, counts = validate(ctx, path, toggles, name="replay")
    totals = report(ctx, pid, [(path, bad, drift, counts)])
    log("replay of %s: %d rejected events for %s" % (path, sum(totals.values()), pid))
    # (no evidence file in replay mode: it would overwrite the evidence of the last full run)


def run(ctx, pid):
    if pid not in ("C10", "C16"):
        raise Inconclusive("c10_tree serves C10 and C16, not %s" % pid)
    toggles = load_toggles()
    if os.environ.get("VERIF_REPLAY"):
        return replay_only(ctx, pid, os.environ["VERIF_REPLAY"], toggles)
    quick = ctx.quick()
    rnd = random.Random(ctx.seed * 7919 + (10 if pid == "C10" else 16))
    pers_mode = pid == "C16"

    # 1. design spec, exhaustive (the cheap simulation of the abstract map runs alongside)
    _lock_sub(ctx)
    from concurrent.futures import ThreadPoolExecutor
    bg = ThreadPoolExecutor(max_workers=1)
    fut_map = bg.submit(simulate, ctx, "TreeMap", "SIM_TreeMap.cfg", {}, ctx.pick(60, 500),
                        ctx.pick(40, 80), "sim-map")
    fut_goal = ThreadPoolExecutor(max_workers=1).submit(goal_behaviours, ctx, pid, toggles)
    mc, passed_toggles, leads, mc_consts = design_check(ctx, pid, toggles)
    modelled = sorted(k for k in TOGGLES if passed_toggles[k] and not toggles[k])

    # 2. histories
    scen = []
    for ld in leads:
        scen += lead_scenarios(ld, pers_mode)
    nsim = ctx.pick(150, 1500)
    behs_p, c_p, sim_p, lead_p = simulate(ctx, "TreePages", "SIM_TreePages.cfg", passed_toggles, nsim,
                                          ctx.pick(26, 42), "sim-pages", Persistent=pers_mode,
                                          WithReset=not pers_mode)
    if lead_p:
        leads.append(lead_p)
        scen += lead_scenarios(lead_p, pers_mode)
    behs_m, c_m, sim_m, _ = fut_map.result()
    goal_scen, goal_summ, goal_dleads = fut_goal.result()
    for ld in goal_dleads:
        leads.append(ld)
        scen += lead_scenarios(ld, pers_mode)
    tail_scen = goal_scen + bulk_scenarios(pid, rnd, quick, ctx.seed)
    if pers_mode:
        scen += model_scenarios(behs_p, c_p, "model-pages", True, rnd)
        scen += model_scenarios([with_reopens(b, rnd, 0.15) for b in behs_m], c_m, "model-map", True, rnd)
        scen += random_scenarios(ctx.pick(110, 1400), 1.0, rnd, quick)
        scen += fullfile_scenarios(ctx.pick([4096, 80], PAGE_SIZES), rnd)
    else:
        scen += model_scenarios(behs_p, c_p, "model-pages", False, rnd)
        # a share of the histories also on file-backed trees (C10 quantifies over every z.Tree)
        for i, b in enumerate(behs_m):
            pers = i % 5 == 4
            scen += model_scenarios([with_reopens(b, rnd, 0.1) if pers else b], c_m, "model-map", pers, rnd)
        scen += random_scenarios(ctx.pick(120, 1600), 0.2, rnd, quick)
    scen += tail_scen
    # 3. drive the real tree (several driver processes side by side: file-backed trees spend their
    #    time in msync; the design leads all go to the first process, so their trace ids are 1..)
    nproc = ctx.pick(4, 6)
    chunks = [[] for _ in range(nproc)]
    nlead = sum(1 for sc in scen if sc["src"].startswith("lead:"))
    chunks[0] = scen[:nlead]
    for i, sc in enumerate(scen[nlead:]):
        chunks[i % nproc].append(sc)

    def drive(i):
        inp = os.path.join(ctx.scratch, "tree_input_%d.json" % i)
        with open(inp, "w") as f:
            json.dump(chunks[i], f)
        return vlib.go_test(ctx, "./z", {
            "z/verif_trace_test.go": ("common/vtrace_test.go.txt", "z"),
            "z/verif_tree_test.go": "z/tree_test.go.txt",
        }, "^TestVerifTree$", env={"VERIF_INPUT": inp, "VERIF_FILE_MB": ctx.pick(5, 12)},
            timeout=ctx.pick(420, 1500), name="gotest-%d" % i)

    with ThreadPoolExecutor(max_workers=nproc) as ex:
        results = list(ex.map(drive, range(nproc)))
    traces = []
    crashed = False
    out = ""
    summ = {"traces": 0, "events": 0, "by_src": {}}
    for i, (rc, o, d) in enumerate(results):
        tr = sorted(os.path.join(d, fn) for fn in os.listdir(d) if re.match(r"tree-\d+\.ndjson$", fn))
        if rc != 0:
            if "[build failed]" in o or "[setup failed]" in o or not tr:
                raise Inconclusive("tree driver failed (rc=%s):\n%s" % (rc, o[-2500:]))
            crashed = True
            out += o[-2500:]
        else:
            sj = json.load(open(os.path.join(d, "tree.summary.json")))
            summ["traces"] += sj["traces"]
            summ["events"] += sj["events"]
            for k, v in sj["by_src"].items():
                summ["by_src"][k] = summ["by_src"].get(k, 0) + v
        traces += [(tp, i) for tp in tr]
    rc = 1 if crashed else 0

    # 4. validate every trace file (a few TLC processes side by side)
    jobs = []
    nev = 0
    for i, (tp, part) in enumerate(traces):
        with open(tp) as f:
            txt = f.read()
        if crashed:      # keep only whole lines (a driver process died while writing)
            txt = txt[:txt.rfind("\n") + 1]
            with open(tp, "w") as f:
                f.write(txt)
        if not txt:
            continue
        nev += txt.count("\n")
        jobs.append((tp, part, ctx.sub("validate-%d" % i)))
    with ThreadPoolExecutor(max_workers=4) as ex:
        futs = [ex.submit(validate, ctx, tp, toggles, None, wd) for tp, _, wd in jobs]
        per_file = []
        lead_rejected = set()
        for (tp, part, _), fu in zip(jobs, futs):
            bad, drift, counts = fu.result()
            per_file.append((tp, bad, drift, counts))
            if part == 0:
                lead_rejected |= {b["trace"] for b in bad}
    totals = report(ctx, pid, per_file)
    if crashed and not ctx.violations and not ctx.known:
        raise Inconclusive("tree driver died (rc=%s) and the traces written before are accepted:\n%s" % (rc, out[-2500:]))
    if crashed:
        ctx.notes.append("the driver process died (rc=%s); verdict from the traces flushed before" % rc)

    # 5. every design lead must have been confirmed on the real tree, else model and code disagree
    lead_tids = {}
    for i, sc in enumerate(chunks[0]):
        if sc["src"].startswith("lead:"):
            lead_tids.setdefault(sc["src"][5:], set()).add(i + 1)
    rejected_tids = lead_rejected
    for ld in leads:
        inv = ld["invariant"]
        if not (lead_tids.get(inv, set()) & rejected_tids):
            raise Inconclusive(
                "TLC found a counterexample to %s in the design spec with the toggles of tree_toggles.json "
                "(%s: %s) but the real tree does not show it: the toggles do not describe /repo's code "
                "(or the model is wrong)" % (inv, ld["toggles"], fmt_ops(ld["ops"])))

    # 6. evidence
    samples = []
    if traces:
        with open(traces[0][0]) as f:
            for _ in range(4):
                ln = f.readline()
                if ln:
                    e = json.loads(ln)
                    samples.append({k: (v if k not in ("o", "wb") else "...") for k, v in e.items()} |
                                   ({"o.st": e["o"]["st"]} if "o" in e else {}))
    for ld in leads:
        samples.append({"design_counterexample": ld["invariant"], "ops": fmt_ops(ld["ops"], 30),
                        "toggles": ld["toggles"]})
    by_src = summ["by_src"]
    bulk_cov = bulk_coverage([tp for tp, _ in traces])
    vlib.write_evidence(ctx, "model_checking", {
        "states": mc.distinct,
        "transitions": mc.generated,
        "depth": mc.depth,
        "traces_validated_against_impl": summ["traces"],
        "events_validated": nev,
        "traces_by_source": by_src,
        "model_behaviours_replayed": len(behs_p) + len(behs_m),
        "simulated_states_checked": sim_p.generated,
        "design_constants": {k: v for k, v in mc_consts.items() if not k.startswith("_")},
        "design_extra_exhaustive_runs": mc_consts.get("_extra_runs", []),
        "design_toggles_in_code": toggles,
        "design_repairs_modelled_for_exploration": modelled,
        "coverage_goals": goal_summ,
        "bulk_growth": bulk_cov,
        "design_counterexamples": [{"invariant": ld["invariant"], "ops": fmt_ops(ld["ops"], 30)} for ld in leads],
        "rejected_event_classes": totals,
        "samples": samples,
        "exhaustive": True,
        "rule": "design spec TreePages.tla: all behaviours within the stated constants (4 keys per node); real "
                "tree: every design counterexample, every simulated behaviour (page structure compared with the "
                "model at page size 80), seeded online histories for page sizes 80/96/128/256/4096, in memory and "
                "file-backed with reopen, files filled to their last page; one trace per tree instance",
    }, ["TLC explores the design exhaustively only for the stated small constants (MK = 4, MinSize = 5 pages)",
        "the state count is that of the run in which the design passed; repairs listed under "
        "design_repairs_modelled_for_exploration are modelled there but NOT assumed for the real code",
        "keys/values are ids embedded order-preservingly into uint64 (anchors 1, 2^63-1, 2^63+1, 2^64-3, 2^64-2; "
        "values 1 and 2^64-1); Get is probed for every key id of the trace's universe, not for all 2^64 keys",
        "clean close only (C16 claims nothing about torn writes); minSize (1 MiB) is a Go constant, so "
        "file-fullness states are reached by filling, not by shrinking the file"])
