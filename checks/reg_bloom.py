"""Registry fragment: z.Bloom (C19)."""

CHECKS = {
    "C19": {
        "module": "c19_bloom",
        "engine": "tlc-bloom",
        "category": "model_checking",
        "text": "TLC checks the design spec spec/z/Bloom.tla exhaustively for small constants against the C19 "
                "predicates; behaviours of that spec and seeded random sequences are executed on the real z.Bloom "
                "(real sizes 512..4096, both constructors) and every recorded trace is validated by TLC against "
                "spec/z/TraceBloom.tla (observer = property as stated; exported bit image compared with the model).",
        "design_ref": "DESIGN.md section 6 (C19)",
        "note": "Assumes TLC and the Go toolchain; design explored exhaustively only for 8 bits / 2 probes / 3 operations; "
                "real-code verdicts cover the hashes probed in each trace, not all 2^64 hashes.",
        "technique": "TLA+ design spec model-checked with TLC; TLC-generated behaviours replayed on the Go code; "
                     "recorded NDJSON traces validated by TLC against a TLA+ trace specification",
    },
}

