"""Shared code of the cache checks (C01-C09, C13-C15, C17): TLC configurations of
spec/cache/Ristretto.tla, projection of TLC states for the Go replay harness, replay driver,
observer validation."""
import json
import os
import re
import shutil

import vlib
from vlib import Inconclusive, log

SPEC_FILES = ["cache/Ristretto.tla", "cache/MCRistretto.tla"]

# default constants of a configuration; every MC_*.cfg is rendered from a dict like this one
BASE = {
    "Keys": [1, 2], "Hashes": [1, 2], "HashOf": "IdHash", "ConfOf": "NoConf", "Clients": [1, 2],
    "MaxOps": 3, "Ops": ["set", "del", "wait", "get"], "BufCap": 1, "InitMaxCost": 2, "MaxCosts": [2],
    "Costs": [1, 2], "KeyCost": "NoKeyCost", "CostFn": 0, "ItemSize": 0, "TTLs": [0], "D": 2, "MaxTime": 0, "MaxGets": 2,
    "RefuseVals": [], "FixZero": False, "FixAtomic": False, "FixLate": False,
}


def toggles():
    """Fix* toggles reflect the CURRENT code in /repo (flipped when a `fix:` commit lands)."""
    p = os.path.join(vlib.SPEC, "cache", "toggles.json")
    with open(p) as f:
        return json.load(f)


def _tla(v):
    if isinstance(v, bool):
        return "TRUE" if v else "FALSE"
    if isinstance(v, int):
        return str(v)
    if isinstance(v, str):
        return '"%s"' % v
    if isinstance(v, (list, tuple, set)):
        return "{" + ", ".join(_tla(x) for x in v) + "}"
    raise ValueError(v)


def render_cfg(consts, invariants=(), properties=(), spec="Spec", view=None, constraint=None,
               symmetry=None):
    c = dict(BASE)
    c.update(toggles())
    c.update(consts)
    lines = ["SPECIFICATION %s" % spec, "CONSTANTS"]
    for k, v in c.items():
        if k in ("HashOf", "ConfOf", "KeyCost"):
            lines.append("  %s <- %s" % (k, v))
        else:
            lines.append("  %s = %s" % (k, _tla(v)))
    if invariants:
        lines.append("INVARIANTS " + " ".join(invariants))
    if properties:
        lines.append("PROPERTIES " + " ".join(properties))
    if view:
        lines.append("VIEW %s" % view)
    if constraint:
        lines.append("CONSTRAINT %s" % constraint)
    return "\n".join(lines) + "\n", c


HASHFN = {
    "IdHash": lambda k: k,
    "CollHash": lambda k: 2 if k == 3 else 1,
}
CONFFN = {
    "NoConf": lambda k: 0,
    "CollConf": lambda k: 0 if k == 3 else k,
    "StrConf": lambda k: k + 10,
}


def harness_cfg(c, metrics=True):
    return {
        "keys": list(c["Keys"]),
        "hashOf": {str(k): HASHFN[c["HashOf"]](k) for k in c["Keys"]},
        "confOf": {str(k): CONFFN[c["ConfOf"]](k) for k in c["Keys"]},
        "clients": list(c["Clients"]),
        "bufCap": c["BufCap"],
        "initMaxCost": c["InitMaxCost"],
        "costFn": c["CostFn"],
        "itemSize": c["ItemSize"],
        "d": c["D"],
        "refuseVals": list(c["RefuseVals"]),
        "metrics": metrics,
    }


# ----------------------------------------------------------------------------------------------
# projection of a TLC state for the Go harness

def _fn(v):
    """TLC prints a function with domain 1..n as a sequence."""
    if isinstance(v, list):
        return {i + 1: x for i, x in enumerate(v)}
    return v


def project(st, c):
    store = {}
    for h, e in _fn(st["store"]).items():
        if e["val"] != 0:
            store[str(h)] = [e["val"], e["exp"], e["conf"]]
    pol = {str(h): cost for h, cost in _fn(st["pol"]).items() if cost != -1}
    door = _fn(st["door"])
    cnt = _fn(st["cnt"])
    est = {str(h): cnt[h] + (1 if door[h] else 0) for h in cnt}
    em = sorted([list(p) for p in st["em"]])
    pc = {str(cl): v for cl, v in _fn(st["pc"]).items()}
    quiescent = (len(st["buf"]) == 0 and len(st["sendq"]) == 0 and st["apc"] == "idle" and st["running"]
                 and all(v == "idle" for v in pc.values()))
    return {
        "store": store, "pol": pol, "used": st["used"], "maxCost": st["maxCost"], "em": em,
        "lastCleaned": st["lastCleaned"], "bufLen": len(st["buf"]), "est": est, "met": st["met"],
        "apc": st["apc"], "pc": pc, "now": st["now"], "quiescent": quiescent, "running": st["running"],
        "closed": st["closed"], "victims": list(st["areg"]["victims"]),
    }


def classify(steps, c):
    """Trace-level flags for the observers, computed from the behaviour itself (conservatively)."""
    permax = {}
    max_ttl = 0
    clients = set()
    for s in steps:
        if s["action"] == "SetBegin":
            cl, k, cost, ttl = s["args"]
            eff = (c["CostFn"] if (cost == 0 and c["CostFn"] != 0) else cost) + c["ItemSize"]
            permax[k] = max(permax.get(k, 0), eff)     # at most one value per key is ever accounted
            max_ttl = max(max_ttl, ttl)
        if s["args"] and s["action"] not in ("SweepCheck",) and isinstance(s["args"][0], int) and \
                s["action"] in ("SetBegin", "DelBegin", "WaitCall", "Get", "GetTTL", "Iter", "SetMaxCost", "ClearCall", "ClosedOp"):
            clients.add(s["args"][0])
    total = sum(permax.values())
    lowers = any(s["action"] == "SetMaxCost" and s["args"][1] < c["InitMaxCost"] for s in steps)
    ample = total <= min([c["InitMaxCost"]] + list(c["MaxCosts"])) and not lowers
    hashes = [HASHFN[c["HashOf"]](k) for k in c["Keys"]]
    coll = len(set(hashes)) < len(hashes)
    return {"ample": ample, "ref": ample and len(clients) <= 1 and not coll, "coll": coll, "maxTTL": max_ttl}


def behaviours_to_jsonl(files, out, c, start_id=1):
    n = 0
    steps_total = 0
    with open(out, "w") as f:
        for fn in files:
            steps = vlib.parse_behaviour_file(fn)
            rec = {"id": start_id + n, "steps": []}
            rec.update(classify(steps, c))
            for s in steps:
                rec["steps"].append({"a": s["action"], "args": s["args"], "s": project(s["state"], c)})
            steps_total += len(rec["steps"]) - 1
            f.write(json.dumps(rec) + "\n")
            n += 1
    return n, steps_total


OVERLAYS = {
    "verif_trace_test.go": ("common/vtrace_test.go.txt", "ristretto"),
    "verif_sched_test.go": "cache/sched_test.go.txt",
}


def simulate(ctx, consts, num, depth, name="sim", seed=None):
    """TLC -simulate on Ristretto.tla; returns (behaviour files, resolved constants, TLCResult)."""
    cfg, c = render_cfg(consts)
    w = 8 if num >= 64 else 1          # `num` is per worker
    r = vlib.tlc(ctx, SPEC_FILES, "MCRistretto", cfg, name=name, workers=w, timeout=900,
                 simulate={"num": (num + w - 1) // w, "depth": depth, "file": "beh"}, seed=seed)
    if not r.ok:
        raise Inconclusive("simulation of Ristretto.tla failed: %s\n%s" % (r.error or r.violated, r.out[-1500:]))
    return vlib.list_behaviour_files(r.dir, "beh"), c, r


def replay(ctx, beh_jsonl, c, name="replay", metrics=True, race=False, timeout=1200, attempts=24):
    """Force the behaviours on the real cache; returns (trace path, summary dict, scratch dir)."""
    cfgp = os.path.join(ctx.scratch, name + "-cfg.json")
    with open(cfgp, "w") as f:
        json.dump(harness_cfg(c, metrics), f)
    rc, out, d = vlib.go_test(ctx, ".", OVERLAYS, "^TestVerifReplay$",
                              env={"VERIF_CFG": cfgp, "VERIF_INPUT": beh_jsonl, "VERIF_ATTEMPTS": attempts}, race=race,
                              timeout=timeout, name=name)
    trace = os.path.join(d, "cache.ndjson")
    summ = os.path.join(d, "replay.summary.json")
    if rc != 0 or not os.path.exists(summ):
        raise Inconclusive("replay driver failed (rc=%s):\n%s" % (rc, out[-3000:]))
    return trace, json.load(open(summ)), d


OBS_FILES = ["obs/ObsCache.tla", "obs/ObsCache.cfg", "obs/ObsRef.tla", "obs/ObsRef.cfg"]


def split_trace(trace, parts, outdir):
    """Split an NDJSON trace at `New` events into at most `parts` files of similar size."""
    segs = []
    cur = []
    with open(trace) as f:
        for ln in f:
            if '"ev":"New"' in ln and cur:
                segs.append(cur)
                cur = []
            cur.append(ln)
    if cur:
        segs.append(cur)
    total = sum(len(s) for s in segs)
    parts = max(1, min(parts, len(segs)))
    target = total / parts
    files, acc, n = [], [], 0
    for sg in segs:
        acc.append(sg)
        n += len(sg)
        if n >= target and len(files) < parts - 1:
            files.append(acc)
            acc, n = [], 0
    if acc:
        files.append(acc)
    paths = []
    for i, chunk in enumerate(files):
        p = os.path.join(outdir, "chunk%02d.ndjson" % i)
        with open(p, "w") as f:
            for sg in chunk:
                f.writelines(sg)
        paths.append(p)
    return paths


def observe(ctx, trace, name="observe", timeout=1800, parts=None, modules=("ObsCache",)):
    """Validate a recorded trace with the TLA+ observers (TLC, one process per chunk of traces, in
    parallel); returns (list of bad records with `at` relative to the chunk file and a `chunk` path, summary)."""
    from concurrent.futures import ThreadPoolExecutor
    base = ctx.sub(name)
    if parts is None:
        # a JVM start costs several seconds: one chunk per ~12k events, at most 12 chunks
        with open(trace) as f:
            nlines = sum(1 for _ in f)
        parts = max(1, min(12, (nlines + 11999) // 12000))
    chunks = split_trace(trace, parts, base)

    def one(job):
        p, mod = job
        d = os.path.join(base, os.path.basename(p)[:-7] + "-" + mod)
        os.makedirs(d)
        shutil.copy(p, os.path.join(d, "trace.ndjson"))
        r = vlib.tlc(ctx, OBS_FILES, mod, mod + ".cfg", workers=1, timeout=timeout, workdir=d, heap="3g",
                     jvm=("-XX:ParallelGCThreads=2", "-XX:CICompilerCount=2"))
        if not r.ok:
            raise Inconclusive("observer %s failed: %s\n%s" % (mod, r.error or r.violated, r.out[-2500:]))
        bad = vlib.obs_result(r.out)[0]
        for b in bad:
            b["chunk"] = p
        return bad, r

    jobs = [(p, m) for p in chunks for m in modules]
    with ThreadPoolExecutor(max_workers=min(len(jobs), 14)) as ex:
        res = list(ex.map(one, jobs))
    bad = [b for bs, _ in res for b in bs]
    r = res[0][1]
    r.distinct = sum(x.distinct for _, x in res)
    return bad, r


# ----------------------------------------------------------------------------------------------
# free-running concurrent runs (harness/cache/free_test.go.txt)

def _hc(keys, hashfn="IdHash", conffn="NoConf", **kw):
    c = {"Keys": keys, "HashOf": hashfn, "ConfOf": conffn, "Clients": [1], "BufCap": kw.pop("BufCap", 32),
         "InitMaxCost": kw.pop("MaxCost", 1000), "CostFn": kw.pop("CostFn", 0), "ItemSize": kw.pop("ItemSize", 0),
         "D": kw.pop("D", 2), "RefuseVals": kw.pop("RefuseVals", [])}
    h = harness_cfg(c, kw.pop("metrics", True))
    h.update(kw)
    return h


def free_scenarios(tier="quick"):
    """Scenarios of the free-running driver; the thorough tier multiplies the operations of the contention
    amplifiers (their windows are a few nanoseconds wide: hits are rare per operation)."""
    K6 = [1, 2, 3, 4, 5, 6]
    scs = _free_scenarios(K6)
    if tier == "thorough":
        # more executions, not longer ones: the observers' cost grows faster than linearly with the number of
        # values in ONE trace, so the amplifiers are repeated (each repetition is a fresh cache and trace)
        for sc in scs:
            if sc["name"].startswith("hotkey") or sc["name"] in ("admitrace", "clearrace", "tight-yield"):
                sc["repeat"] = 6 * sc.get("repeat", 1)
            if sc["name"] in ("sweeprace", "closesweep"):
                sc["repeat"] = 3
    return scs


def _free_scenarios(K6):
    return [
        {"name": "ample-ttl", "cfg": _hc(K6), "goroutines": 4, "opsPer": 250, "clear": False, "maxCostOps": False,
         "ttls": [1, 2, 5, -1], "costs": [1, 2], "ample": True, "sleep": True},
        {"name": "tight", "cfg": _hc(K6, MaxCost=6, BufCap=4), "goroutines": 8, "opsPer": 200, "clear": False, "maxCostOps": False,
         "ttls": [], "costs": [1, 2, 3], "ample": False, "sleep": False},
        {"name": "tight-clear", "cfg": _hc(K6, MaxCost=5, BufCap=2), "goroutines": 6, "opsPer": 200, "clear": True, "maxCostOps": False,
         "ttls": [1, 3], "costs": [1, 2], "ample": False, "sleep": True},
        {"name": "bare", "cfg": _hc(K6, MaxCost=4, BufCap=8, metrics=False, bufferItems=64, numCounters=2, noCallbacks=True),
         "goroutines": 16, "opsPer": 150, "clear": True, "maxCostOps": True, "ttls": [1, 2], "costs": [1, 2], "ample": False, "sleep": True},
        {"name": "internal-cost", "cfg": _hc(K6, MaxCost=200, ItemSize=56, CostFn=3, BufCap=16), "goroutines": 4, "opsPer": 200, "clear": False,
         "maxCostOps": False, "ttls": [2], "costs": [0, 1, 30], "ample": False, "sleep": True},
        {"name": "collide", "cfg": _hc([1, 2, 3], "CollHash", "CollConf", MaxCost=3, BufCap=4), "goroutines": 4, "opsPer": 200, "clear": False,
         "maxCostOps": False, "ttls": [], "costs": [1], "ample": False, "sleep": False},
        {"name": "many", "cfg": _hc(list(range(1, 17)), MaxCost=12, BufCap=32768, bufferItems=64), "goroutines": 64, "opsPer": 40, "clear": False,
         "maxCostOps": True, "ttls": [1, 4], "costs": [1, 2, 3], "ample": False, "sleep": True},
        # contention amplifiers: many goroutines on one or two keys of one shard, so that a critical section that was
        # split (lock released and re-taken, check outside the lock) is entered by a second goroutine in the gap
        {"name": "hotkey", "cfg": _hc([1, 2], MaxCost=1000, BufCap=64), "goroutines": 12, "opsPer": 90, "clear": False,
         "maxCostOps": False, "ttls": [], "costs": [1], "ample": True, "sleep": False, "yield": True},
        {"name": "hotkey-clear", "cfg": _hc([1, 257, 513], MaxCost=1000, BufCap=64), "goroutines": 10, "opsPer": 100, "clear": True,
         "maxCostOps": False, "ttls": [], "costs": [1], "ample": True, "sleep": False, "yield": True},
        {"name": "hotkey-collide", "cfg": _hc([1, 2], "CollHash", "CollConf", MaxCost=1000, BufCap=64), "goroutines": 10, "opsPer": 100,
         "clear": False, "maxCostOps": False, "ttls": [1, 5], "costs": [1], "ample": True, "sleep": True, "yield": True, "repeat": 3},
        {"name": "tight-flat", "cfg": _hc(K6, MaxCost=3, BufCap=4), "goroutines": 8, "opsPer": 240, "clear": False, "maxCostOps": False,
         "ttls": [], "costs": [1, 1, 1, 1, 2, 2], "costByKey": True, "ample": False, "sleep": False, "phases": 12},
        {"name": "sweeprace-tight", "cfg": _hc([1, 2, 3, 4, 5], MaxCost=4, BufCap=64, D=1), "goroutines": 6, "opsPer": 150, "clear": False,
         "maxCostOps": False, "ttls": [1, 1, 2, 0, 30], "costs": [1], "ample": False, "sleep": True, "pattern": "sweeprace", "yield": True, "phases": 15},
        {"name": "stall", "cfg": _hc(list(range(1, 13)), MaxCost=100000, BufCap=64, D=1), "goroutines": 1, "opsPer": 1, "clear": False,
         "maxCostOps": False, "ttls": [40], "costs": [1], "ample": True, "sleep": False, "pattern": "stall", "yield": False},
        {"name": "shrinkrace", "cfg": _hc([1, 2], MaxCost=10, BufCap=64), "goroutines": 3, "opsPer": 800, "clear": False,
         "maxCostOps": True, "ttls": [], "costs": [5], "ample": False, "sleep": False, "pattern": "shrinkrace", "yield": False},
        {"name": "bigitem", "cfg": _hc(list(range(1, 32)), MaxCost=30, BufCap=64), "goroutines": 1, "opsPer": 1, "clear": False,
         "maxCostOps": False, "ttls": [], "costs": [1] * 30 + [25], "costByKey": True, "ample": False, "sleep": False, "pattern": "bigitem", "yield": False},
        {"name": "pressure", "cfg": _hc(K6, MaxCost=1000, BufCap=64, D=1, CostFn=1), "goroutines": 1, "opsPer": 1, "clear": False,
         "maxCostOps": False, "ttls": [1], "costs": [0], "ample": True, "sleep": False, "pattern": "pressure", "yield": False},
        {"name": "slowwait", "cfg": _hc(K6, MaxCost=1000, BufCap=64, D=5, CostFn=1), "goroutines": 1, "opsPer": 1, "clear": False,
         "maxCostOps": False, "ttls": [], "costs": [0], "ample": True, "sleep": False, "pattern": "slowwait", "yield": False},
        {"name": "expireswap", "cfg": _hc([1, 2], "CollHash", "CollConf", MaxCost=1000, BufCap=64, D=5), "goroutines": 9, "opsPer": 16,
         "clear": False, "maxCostOps": False, "ttls": [1], "costs": [1], "ample": True, "sleep": True, "pattern": "expireswap", "yield": True, "park": True, "repeat": 2},
        {"name": "sweeprace", "cfg": _hc([1, 2, 3], MaxCost=100000, BufCap=64, D=1), "goroutines": 6, "opsPer": 150, "clear": False,
         "maxCostOps": False, "ttls": [1, 1, 2, 0, 30], "costs": [1], "ample": True, "sleep": True, "pattern": "sweeprace", "yield": True},
        {"name": "closesweep", "cfg": _hc(list(range(1, 41)), MaxCost=100000, BufCap=256, D=1), "goroutines": 1, "opsPer": 1, "clear": False,
         "maxCostOps": False, "ttls": [1], "costs": [1], "ample": True, "sleep": False, "pattern": "closesweep", "yield": False},
        {"name": "clearrace", "cfg": _hc(list(range(215, 256)), MaxCost=100000, BufCap=64), "goroutines": 6, "opsPer": 160, "clear": True,
         "maxCostOps": False, "ttls": [], "costs": [1], "ample": True, "sleep": False, "pattern": "clearrace", "yield": True},
        {"name": "admitrace", "cfg": _hc([1, 2, 3], MaxCost=2, BufCap=8, numCounters=16), "goroutines": 8, "opsPer": 250, "clear": False, "maxCostOps": False,
         "ttls": [], "costs": [1], "ample": False, "sleep": False, "pattern": "admitrace", "yield": True},
        {"name": "tight-yield", "cfg": _hc(K6, MaxCost=6, BufCap=4), "goroutines": 8, "opsPer": 200, "clear": False, "maxCostOps": False,
         "ttls": [], "costs": [1, 2, 3], "ample": False, "sleep": False, "yield": True},
        {"name": "refuse", "cfg": _hc(K6, MaxCost=8, BufCap=4, RefuseVals=list(range(3, 4000, 3))), "goroutines": 4, "opsPer": 200, "clear": False,
         "maxCostOps": False, "ttls": [], "costs": [1, 2], "ample": False, "sleep": False},
    ]


FREE_OVERLAYS = dict(OVERLAYS)
FREE_OVERLAYS["verif_free_test.go"] = "cache/free_test.go.txt"
# schedule fuzzing at lock boundaries: the package sources of the tree under test are overlaid with copies in
# which every Lock/Unlock is surrounded by verifYield() (switched on per scenario, "yield": true)
FREE_OVERLAYS["verif_yield.go"] = ("common/yield.go.txt", "ristretto")
for _f in ("store.go", "ttl.go", "policy.go", "cache.go"):
    FREE_OVERLAYS[_f] = vlib.yield_at_locks


def free_run(ctx, scenarios, rounds=1, race=True, name="free", timeout=1500):
    """Run the free-running driver; returns (trace path, summary, go output).  Race reports, crashes
    and timeouts of the test binary are appended to the trace as events (judged by the observer)."""
    inp = os.path.join(ctx.scratch, name + "-scenarios.json")
    with open(inp, "w") as f:
        json.dump(scenarios, f)
    rc, out, d = vlib.go_test(ctx, ".", FREE_OVERLAYS, "^TestVerifFree$", env={"VERIF_INPUT": inp, "VERIF_ROUNDS": rounds},
                              race=race, timeout=timeout, name=name)
    trace = os.path.join(d, "free.ndjson")
    if not os.path.exists(trace):
        raise Inconclusive("free-running driver produced no trace (rc=%s):\n%s" % (rc, out[-3000:]))
    extra = []
    if "WARNING: DATA RACE" in out:
        i = out.index("WARNING: DATA RACE")
        extra.append({"ev": "Race", "what": out[i:i + 1800]})
    if rc == 124:
        extra.append({"ev": "Hang", "what": "the test binary did not finish within %ds of wall-clock time" % timeout})
    elif rc != 0 and "panic: test timed out after" in out:
        # go test's own alarm: the DRIVER ran out of time (a saturated machine, too much work) - a tool failure, never a
        # verdict.  A call that hangs is recognised inside the bubble (Hang event) long before this alarm.
        raise Inconclusive("the free-running driver exceeded its time limit (go test alarm); nothing is concluded from it")
    elif rc != 0 and "panic:" in out and "DATA RACE" not in out:
        i = out.index("panic:")
        frames = out[i:i + 2500]
        if "verif_" in frames.split("goroutine", 2)[1] if "goroutine" in frames else False:
            raise Inconclusive("the harness itself panicked:\n" + frames)
        extra.append({"ev": "Panic", "what": frames})
    elif rc != 0 and not extra:
        if "build failed" in out or "[build failed]" in out or "cannot" in out[:400]:
            raise Inconclusive("free-running driver failed to build/run (rc=%s):\n%s" % (rc, out[-3000:]))
        raise Inconclusive("free-running driver failed (rc=%s):\n%s" % (rc, out[-3000:]))
    if extra:
        with open(trace, "a") as f:
            for e in extra:
                f.write(json.dumps(e) + "\n")
    sp = os.path.join(d, "free.summary.json")
    summ = json.load(open(sp)) if os.path.exists(sp) else {"traces": 0, "events": 0}
    return trace, summ, out


# ----------------------------------------------------------------------------------------------
# Get-frequency pipeline (spec/cache/Ring.tla, harness/cache/ring_test.go.txt)

RING_FILES = ["cache/Ring.tla", "cache/MC_Ring.cfg", "cache/MC_Ring_defect.cfg", "cache/SIM_Ring.cfg"]
RING_OVERLAYS = {
    "verif_trace_test.go": ("common/vtrace_test.go.txt", "ristretto"),
    "verif_sched_test.go": "cache/sched_test.go.txt",
    "verif_ring_test.go": "cache/ring_test.go.txt",
}


def ring_phase(ctx, num, race=False):
    """Model-check Ring.tla, replay Eager-mode behaviours on the real ring/policy pipeline.
    Returns (states, transitions, trace path, summary)."""
    mc = vlib.tlc(ctx, RING_FILES, "Ring", "MC_Ring.cfg", name="mc-ring", timeout=900)
    if not mc.ok:
        raise Inconclusive("Ring.tla did not pass TLC: %s" % (mc.violated or mc.error))
    sim = vlib.tlc(ctx, RING_FILES, "Ring", "SIM_Ring.cfg", name="sim-ring", workers=4, timeout=600,
                   simulate={"num": (num + 3) // 4, "depth": 45, "file": "beh"})
    if not sim.ok:
        raise Inconclusive("Ring.tla simulation failed: %s" % (sim.error or sim.violated))
    out = os.path.join(ctx.scratch, "ring-beh.jsonl")
    n = 0
    with open(out, "w") as f:
        for fn in vlib.list_behaviour_files(sim.dir, "beh"):
            n += 1
            rec = {"id": n, "capa": 2, "steps": []}
            for st in vlib.parse_behaviour_file(fn):
                s = st["state"]
                freq, gets = _fn(s["freq"]), _fn(s["gets"])
                cur_empty = s["cur"]["a"] == 0
                can_run = (cur_empty and len(s["ch"]) > 0) or ((not cur_empty) and not s["plock"])
                rec["steps"].append({"a": st["action"], "args": st["args"], "s": {
                    "ch": len(s["ch"]), "kept": s["kept"], "dropped": s["dropped"],
                    "freq": {str(k): v for k, v in freq.items()}, "gets": {str(k): v for k, v in gets.items()},
                    "idle": not can_run}})
            f.write(json.dumps(rec) + "\n")
    rc, o, d = vlib.go_test(ctx, ".", RING_OVERLAYS, "^TestVerifRing$", env={"VERIF_INPUT": out}, race=race, timeout=900, name="ring")
    trace = os.path.join(d, "ring.ndjson")
    sp = os.path.join(d, "ring.summary.json")
    if "WARNING: DATA RACE" in o and os.path.exists(trace):
        i = o.index("WARNING: DATA RACE")
        with open(trace, "a") as f:
            f.write(json.dumps({"ev": "Race", "what": o[i:i + 1800]}) + "\n")
    elif rc != 0 or not os.path.exists(sp):
        raise Inconclusive("ring driver failed (rc=%s):\n%s" % (rc, o[-2500:]))
    summ = json.load(open(sp)) if os.path.exists(sp) else {"traces": 0, "events": 0, "drift": 0, "behaviours": 0, "steps": 0}
    return mc.distinct, mc.generated, trace, summ


KEYTYPE_OVERLAYS = dict(OVERLAYS)
KEYTYPE_OVERLAYS["verif_keytypes_test.go"] = "cache/keytypes_test.go.txt"


def keytypes_run(ctx, race=False):
    """C01: the key kinds with the default key hashing (harness/cache/keytypes_test.go.txt)."""
    rc, out, d = vlib.go_test(ctx, ".", KEYTYPE_OVERLAYS, "^TestVerifKeyTypes$", race=race, timeout=900, name="keytypes")
    trace = os.path.join(d, "keytypes.ndjson")
    sp = os.path.join(d, "keytypes.summary.json")
    if rc != 0 or not os.path.exists(sp):
        if os.path.exists(trace) and "panic:" in out:
            with open(trace, "a") as f:
                f.write(json.dumps({"ev": "Panic", "what": out[out.index("panic:"):][:1500]}) + "\n")
            return trace, {"traces": 1, "events": 1}
        raise Inconclusive("key-type driver failed (rc=%s):\n%s" % (rc, out[-2500:]))
    return trace, json.load(open(sp))
