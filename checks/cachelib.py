"""Shared code of the cache checks (C01-C09, C13-C15, C17): TLC configurations of
spec/cache/Ristretto.tla, projection of TLC states for the Go replay harness, replay driver,
observer validation."""
import json
import os
import re
import shutil

import vlib
from vlib import Inconclusive, log

SPEC_FILES = ["cache/Ristretto.tla", "cache/MCRistretto.tla"]

# default constants of a configuration; every MC_*.cfg is rendered from a dict like this one
BASE = {
    "Keys": [1, 2], "Hashes": [1, 2], "HashOf": "IdHash", "ConfOf": "NoConf", "Clients": [1, 2],
    "MaxOps": 3, "Ops": ["set", "del", "wait", "get"], "BufCap": 1, "InitMaxCost": 2, "MaxCosts": [2],
    "Costs": [1, 2], "CostFn": 0, "ItemSize": 0, "TTLs": [0], "D": 2, "MaxTime": 0, "MaxGets": 2,
    "RefuseVals": [], "FixZero": False, "FixAtomic": False, "FixLate": False,
}


def toggles():
    """Fix* toggles reflect the CURRENT code in /repo (flipped when a `fix:` commit lands)."""
    p = os.path.join(vlib.SPEC, "cache", "toggles.json")
    with open(p) as f:
        return json.load(f)


def _tla(v):
    if isinstance(v, bool):
        return "TRUE" if v else "FALSE"
    if isinstance(v, int):
        return str(v)
    if isinstance(v, str):
        return '"%s"' % v
    if isinstance(v, (list, tuple, set)):
        return "{" + ", ".join(_tla(x) for x in v) + "}"
    raise ValueError(v)


def render_cfg(consts, invariants=(), properties=(), spec="Spec", view=None, constraint=None,
               symmetry=None):
    c = dict(BASE)
    c.update(toggles())
    c.update(consts)
    lines = ["SPECIFICATION %s" % spec, "CONSTANTS"]
    for k, v in c.items():
        if k in ("HashOf", "ConfOf"):
            lines.append("  %s <- %s" % (k, v))
        else:
            lines.append("  %s = %s" % (k, _tla(v)))
    if invariants:
        lines.append("INVARIANTS " + " ".join(invariants))
    if properties:
        lines.append("PROPERTIES " + " ".join(properties))
    if view:
        lines.append("VIEW %s" % view)
    if constraint:
        lines.append("CONSTRAINT %s" % constraint)
    return "\n".join(lines) + "\n", c


HASHFN = {
    "IdHash": lambda k: k,
    "CollHash": lambda k: 2 if k == 3 else 1,
}
CONFFN = {
    "NoConf": lambda k: 0,
    "CollConf": lambda k: 0 if k == 3 else k,
    "StrConf": lambda k: k + 10,
}


def harness_cfg(c, metrics=True):
    return {
        "keys": list(c["Keys"]),
        "hashOf": {str(k): HASHFN[c["HashOf"]](k) for k in c["Keys"]},
        "confOf": {str(k): CONFFN[c["ConfOf"]](k) for k in c["Keys"]},
        "clients": list(c["Clients"]),
        "bufCap": c["BufCap"],
        "initMaxCost": c["InitMaxCost"],
        "costFn": c["CostFn"],
        "itemSize": c["ItemSize"],
        "d": c["D"],
        "refuseVals": list(c["RefuseVals"]),
        "metrics": metrics,
    }


# ----------------------------------------------------------------------------------------------
# projection of a TLC state for the Go harness

def _fn(v):
    """TLC prints a function with domain 1..n as a sequence."""
    if isinstance(v, list):
        return {i + 1: x for i, x in enumerate(v)}
    return v


def project(st, c):
    store = {}
    for h, e in _fn(st["store"]).items():
        if e["val"] != 0:
            store[str(h)] = [e["val"], e["exp"], e["conf"]]
    pol = {str(h): cost for h, cost in _fn(st["pol"]).items() if cost != -1}
    door = _fn(st["door"])
    cnt = _fn(st["cnt"])
    est = {str(h): cnt[h] + (1 if door[h] else 0) for h in cnt}
    em = sorted([list(p) for p in st["em"]])
    pc = {str(cl): v for cl, v in _fn(st["pc"]).items()}
    quiescent = (len(st["buf"]) == 0 and len(st["sendq"]) == 0 and st["apc"] == "idle" and st["running"]
                 and all(v == "idle" for v in pc.values()))
    return {
        "store": store, "pol": pol, "used": st["used"], "maxCost": st["maxCost"], "em": em,
        "lastCleaned": st["lastCleaned"], "bufLen": len(st["buf"]), "est": est, "met": st["met"],
        "apc": st["apc"], "pc": pc, "now": st["now"], "quiescent": quiescent, "running": st["running"],
        "closed": st["closed"], "victims": list(st["areg"]["victims"]),
    }


def classify(steps, c):
    """Trace-level flags for the observers, computed from the behaviour itself (conservatively)."""
    total = 0
    max_ttl = 0
    clients = set()
    for s in steps:
        if s["action"] == "SetBegin":
            cl, k, cost, ttl = s["args"]
            eff = (c["CostFn"] if (cost == 0 and c["CostFn"] != 0) else cost) + c["ItemSize"]
            total += eff
            max_ttl = max(max_ttl, ttl)
        if s["args"] and s["action"] not in ("SweepCheck",) and isinstance(s["args"][0], int) and \
                s["action"] in ("SetBegin", "DelBegin", "WaitCall", "Get", "GetTTL", "Iter", "SetMaxCost", "ClearCall", "ClosedOp"):
            clients.add(s["args"][0])
    lowers = any(s["action"] == "SetMaxCost" and s["args"][1] < c["InitMaxCost"] for s in steps)
    ample = total <= min([c["InitMaxCost"]] + list(c["MaxCosts"])) and not lowers
    hashes = [HASHFN[c["HashOf"]](k) for k in c["Keys"]]
    coll = len(set(hashes)) < len(hashes)
    return {"ample": ample, "ref": ample and len(clients) <= 1 and not coll, "coll": coll, "maxTTL": max_ttl}


def behaviours_to_jsonl(files, out, c, start_id=1):
    n = 0
    steps_total = 0
    with open(out, "w") as f:
        for fn in files:
            steps = vlib.parse_behaviour_file(fn)
            rec = {"id": start_id + n, "steps": []}
            rec.update(classify(steps, c))
            for s in steps:
                rec["steps"].append({"a": s["action"], "args": s["args"], "s": project(s["state"], c)})
            steps_total += len(rec["steps"]) - 1
            f.write(json.dumps(rec) + "\n")
            n += 1
    return n, steps_total


OVERLAYS = {
    "verif_trace_test.go": ("common/vtrace_test.go.txt", "ristretto"),
    "verif_sched_test.go": "cache/sched_test.go.txt",
}


def simulate(ctx, consts, num, depth, name="sim", seed=None):
    """TLC -simulate on Ristretto.tla; returns (behaviour files, resolved constants, TLCResult)."""
    cfg, c = render_cfg(consts)
    w = 8 if num >= 64 else 1          # `num` is per worker
    r = vlib.tlc(ctx, SPEC_FILES, "MCRistretto", cfg, name=name, workers=w, timeout=900,
                 simulate={"num": (num + w - 1) // w, "depth": depth, "file": "beh"}, seed=seed)
    if not r.ok:
        raise Inconclusive("simulation of Ristretto.tla failed: %s\n%s" % (r.error or r.violated, r.out[-1500:]))
    return vlib.list_behaviour_files(r.dir, "beh"), c, r


def replay(ctx, beh_jsonl, c, name="replay", metrics=True, race=False, timeout=1200):
    """Force the behaviours on the real cache; returns (trace path, summary dict, scratch dir)."""
    cfgp = os.path.join(ctx.scratch, name + "-cfg.json")
    with open(cfgp, "w") as f:
        json.dump(harness_cfg(c, metrics), f)
    rc, out, d = vlib.go_test(ctx, ".", OVERLAYS, "^TestVerifReplay$",
                              env={"VERIF_CFG": cfgp, "VERIF_INPUT": beh_jsonl}, race=race,
                              timeout=timeout, name=name)
    trace = os.path.join(d, "cache.ndjson")
    summ = os.path.join(d, "replay.summary.json")
    if rc != 0 or not os.path.exists(summ):
        raise Inconclusive("replay driver failed (rc=%s):\n%s" % (rc, out[-3000:]))
    return trace, json.load(open(summ)), d


OBS_FILES = ["obs/ObsCache.tla", "obs/ObsCache.cfg"]


def split_trace(trace, parts, outdir):
    """Split an NDJSON trace at `New` events into at most `parts` files of similar size."""
    segs = []
    cur = []
    with open(trace) as f:
        for ln in f:
            if '"ev":"New"' in ln and cur:
                segs.append(cur)
                cur = []
            cur.append(ln)
    if cur:
        segs.append(cur)
    total = sum(len(s) for s in segs)
    parts = max(1, min(parts, len(segs)))
    target = total / parts
    files, acc, n = [], [], 0
    for sg in segs:
        acc.append(sg)
        n += len(sg)
        if n >= target and len(files) < parts - 1:
            files.append(acc)
            acc, n = [], 0
    if acc:
        files.append(acc)
    paths = []
    for i, chunk in enumerate(files):
        p = os.path.join(outdir, "chunk%02d.ndjson" % i)
        with open(p, "w") as f:
            for sg in chunk:
                f.writelines(sg)
        paths.append(p)
    return paths


def observe(ctx, trace, name="observe", timeout=1800, parts=12):
    """Validate a recorded trace with the TLA+ observers (TLC, one process per chunk of traces, in
    parallel); returns (list of bad records with `at` relative to the chunk file and a `chunk` path, summary)."""
    from concurrent.futures import ThreadPoolExecutor
    base = ctx.sub(name)
    chunks = split_trace(trace, parts, base)

    def one(p):
        d = os.path.join(base, os.path.basename(p)[:-7])
        os.makedirs(d)
        shutil.copy(p, os.path.join(d, "trace.ndjson"))
        r = vlib.tlc(ctx, OBS_FILES, "ObsCache", "ObsCache.cfg", workers=1, timeout=timeout, workdir=d, heap="3g")
        if not r.ok:
            raise Inconclusive("observer run failed: %s\n%s" % (r.error or r.violated, r.out[-2500:]))
        bad = vlib.obs_result(r.out)[0]
        for b in bad:
            b["chunk"] = p
        return bad, r

    with ThreadPoolExecutor(max_workers=len(chunks)) as ex:
        res = list(ex.map(one, chunks))
    bad = [b for bs, _ in res for b in bs]
    r = res[0][1]
    r.distinct = sum(x.distinct for _, x in res)
    return bad, r
