"""Registry fragment: cache properties decided by the Ristretto.tla pipeline (checks/cache_family.py)."""

_TECH = ("TLA+ design spec (Ristretto.tla) model-checked exhaustively with TLC on small configurations; TLC-generated "
         "behaviours, counterexamples and coverage-goal behaviours forced step by step on the real cache through build-tag "
         "hooks (gate scheduler inside testing/synctest) with the abstract state compared after every step; free-running "
         "concurrent runs (race detector, lock-boundary schedule fuzzer); every recorded NDJSON trace judged by TLA+ observers "
         "(ObsCache.tla, ObsRef.tla) run by TLC")
_NOTE = ("Trusted: TLC, the Go toolchain, testing/synctest's fake clock, the harness' event recording (events are appended under one "
         "mutex; Begin before the call, End after the return, callbacks inside the callback). Exhaustive only for the small constants "
         "named in the evidence; larger scopes by simulation and coverage goals. Deterministic interleavings are explored at the grain "
         "of the verif hook points; windows inside a critical section are reached only probabilistically by the free-running runs "
         "(schedule fuzzer at lock boundaries). Verdicts come only from observers over traces of the real code; exit 2 "
         "(inconclusive) on tool failure; conformance drift is reported, never a verdict. Open known finding F9 (engineered "
         "primary-hash collisions) is reported as KNOWN-FINDING where its signature matches.")


def _c(text, ref):
    return {"module": "cache_family", "engine": "tlc-ristretto", "category": "model_checking", "text": text,
            "design_ref": ref, "note": _NOTE, "technique": _TECH}


CHECKS = {
    "C01": _c("Engineered primary-hash collisions (constants HashOf/ConfOf realised through Config.KeyToHash) in the design spec: a Get can "
              "only return a value written under an equal key when conflicts are non-zero and differ; observer checks the provenance of "
              "every value returned by Get on real traces (colliding, string-like and integer-like key configurations).", "DESIGN.md 6 (C01)"),
    "C03": _c("policy.Add transcribed with its arithmetic (room, cost>MaxCost, updateIfHas, sampling rounds); action-level properties "
              "'an admission never leaves used above MaxCost' and 'used = sum of accounted costs' for every sequence of the small configs "
              "incl. UpdateMaxCost, Config.Cost and the internal item cost; observer judges RemainingCost at quiescent points and every "
              "white-box admission record of real executions.", "DESIGN.md 6 (C03)"),
    "C06": _c("Single-client histories with room to spare: TLC-generated behaviours (every applier lag is an explicit model step) are forced on "
              "the real cache and every Get/GetTTL/Set result is judged by a TLA+ reference-map observer (ObsRef.tla: map + FIFO of pending "
              "writes, set of possible states over unknown lag and sweep moments; Wait must empty the FIFO).", "DESIGN.md 6 (C06)"),
    "C07": _c("Clock ticks are an independent action of the design spec, so every moment of observation relative to expiry and sweep is "
              "explored; on the real cache the fake clock of testing/synctest makes the expiration instant exact and the observer rejects "
              "any Get/GetTTL outcome that contradicts it.", "DESIGN.md 6 (C07)"),
    "C08": _c("Design spec: invariant 'a call in progress can always make progress' (no stuck state) exhaustively and 'every call returns' under "
              "fairness (TLC liveness) on the hand-off configurations (Wait/Del/Set/Clear, buffer of one); the same schedules are forced on the real "
              "cache where a hang or goroutine leak is decided deterministically by the synctest bubble; free-running runs with 2..64 goroutines "
              "over all listed calls under the Go race detector; panics, hangs, leaks and race reports become trace events judged by the observer.",
              "DESIGN.md 6 (C08)"),
    "C09": _c("The sampling loop of policy.Add (refill without de-duplication, first minimum, strict comparison) is part of the design spec; "
              "on the real cache every sampling round is recorded under the policy lock (sample with estimates, victim, newcomer estimate) "
              "and the observer checks the statement round by round.", "DESIGN.md 6 (C09)"),
    "C15": _c("Clear and Close are modelled stage by stage (stop rendezvous, drain, policy, store, restart / final stop); post-conditions are "
              "latched in the design spec and judged by the observer on snapshots taken right after Clear returns, on calls after Close, and "
              "on goroutine leaks reported by the synctest bubble.", "DESIGN.md 6 (C15)"),
    "C02": _c("Invariant 'the map never holds a value already passed to OnExit' checked on every interleaving of the small configs; "
              "observer rejects any Get that starts after Exit(v) and returns v, on every replayed/recorded execution.", "DESIGN.md 6 (C02)"),
    "C04": _c("Per-value callback counts (exit<=1, evict/reject<=1 and followed by exit, refused values never reported, values accepted "
              "before Clear/Close released exactly once by its return) as invariants of the design spec and as observer rules on real traces.", "DESIGN.md 6 (C04)"),
    "C05": _c("History obligations for completed Del + Wait as invariants of the design spec over every applier lag; observer rule "
              "on real traces: no Get starting after the Wait returns a value whose Set had returned before the Del began.", "DESIGN.md 6 (C05)"),
    "C13": _c("At quiescent states of the design spec the accounted keys equal the resident keys; on the real cache white-box snapshots "
              "at model-quiescent points and IterValues are judged by the observer.", "DESIGN.md 6 (C13)"),
    "C14": _c("Sweep split into its four critical sections in the design spec (grab, check, policy delete, map delete), every position of a "
              "rewrite explored; on the real cache the same schedules are forced through gates inside expirationMap.cleanup and the "
              "observer judges every OnEvict and the final reclaim after enough fake time.", "DESIGN.md 6 (C14)"),
    "C17": _c("The metric counters are state of the design spec, incremented where the code increments them; conservation laws are "
              "invariants at quiescent states and observer rules on the public counters at quiescent points of real executions.", "DESIGN.md 6 (C17)"),
}
