"""Registry fragment: cache properties decided by the Ristretto.tla pipeline (checks/cache_family.py)."""

_TECH = ("TLA+ design spec (Ristretto.tla) model-checked exhaustively with TLC on small configurations; TLC-generated "
         "behaviours and counterexamples forced on the real cache through build-tag hooks (gate scheduler, testing/synctest); "
         "recorded NDJSON traces judged by a TLA+ observer (ObsCache.tla) run by TLC")
_NOTE = ("Trusted: TLC, the Go toolchain, testing/synctest's fake clock, the harness' event recording. Exhaustive only for the small "
         "constants named in the evidence; larger scopes by simulation. Interleavings are explored at the grain of the verif hook points. "
         "Exit 2 (inconclusive) on tool failure; conformance drift is reported, never a verdict.")


def _c(text, ref):
    return {"module": "cache_family", "engine": "tlc-ristretto", "category": "model_checking", "text": text,
            "design_ref": ref, "note": _NOTE, "technique": _TECH}


CHECKS = {
    "C02": _c("Invariant 'the map never holds a value already passed to OnExit' checked on every interleaving of the small configs; "
              "observer rejects any Get that starts after Exit(v) and returns v, on every replayed/recorded execution.", "DESIGN.md 6 (C02)"),
    "C04": _c("Per-value callback counts (exit<=1, evict/reject<=1 and followed by exit, refused values never reported, values accepted "
              "before Clear/Close released exactly once by its return) as invariants of the design spec and as observer rules on real traces.", "DESIGN.md 6 (C04)"),
    "C05": _c("History obligations for completed Del + Wait as invariants of the design spec over every applier lag; observer rule "
              "on real traces: no Get starting after the Wait returns a value whose Set had returned before the Del began.", "DESIGN.md 6 (C05)"),
    "C13": _c("At quiescent states of the design spec the accounted keys equal the resident keys; on the real cache white-box snapshots "
              "at model-quiescent points and IterValues are judged by the observer.", "DESIGN.md 6 (C13)"),
    "C14": _c("Sweep split into its four critical sections in the design spec (grab, check, policy delete, map delete), every position of a "
              "rewrite explored; on the real cache the same schedules are forced through gates inside expirationMap.cleanup and the "
              "observer judges every OnEvict and the final reclaim after enough fake time.", "DESIGN.md 6 (C14)"),
    "C17": _c("The metric counters are state of the design spec, incremented where the code increments them; conservation laws are "
              "invariants at quiescent states and observer rules on the public counters at quiescent points of real executions.", "DESIGN.md 6 (C17)"),
}
