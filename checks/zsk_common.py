"""Helpers shared by the sketch (C18) and search (C20) checks (python3 standard library only).

 * parse_dump        - states of a `tlc -dump` file as python dicts
 * validate_chunks   - split an NDJSON trace at its reset events and let several TLC processes validate
                       the pieces in parallel with a trace specification; merges bad / drift
 * judge             - turn the observer's `bad` records into ctx.known / ctx.violations according to
                       the open entries of known_findings.json
"""
import concurrent.futures
import json
import os
import re
import shutil

import vlib
from vlib import Inconclusive, log


def parse_dump(path):
    """Yield {var: value} for every state of a TLC `-dump` file."""
    cur = []
    with open(path) as f:
        for ln in f:
            if ln.startswith("State "):
                if cur:
                    yield _state(cur)
                cur = []
            elif ln.strip():
                cur.append(ln.rstrip("\n"))
    if cur:
        yield _state(cur)


def _state(lines):
    text = "\n".join(lines)
    st = {}
    for part in re.split(r"^/\\ ", text, flags=re.M):
        part = part.strip()
        if not part:
            continue
        m = re.match(r"(\w+) = (.*)$", part, re.S)
        if m:
            st[m.group(1)] = vlib.parse_tla(m.group(2))
    return st


def split_trace(trace_path, max_events, reset_ev="New"):
    """Split an NDJSON trace into pieces of about max_events lines, cutting only in front of a reset
    event.  Returns [(first_line_number, [lines])]."""
    pieces = []
    cur = []
    start = 1
    lineno = 0
    marker = '"ev":"%s"' % reset_ev
    with open(trace_path) as f:
        for ln in f:
            if not ln.strip():
                continue
            lineno += 1
            if len(cur) >= max_events and marker in ln:
                pieces.append((start, cur))
                cur = []
                start = lineno
            cur.append(ln if ln.endswith("\n") else ln + "\n")
    if cur:
        pieces.append((start, cur))
    return pieces


def validate_chunks(ctx, files, module, cfg, trace_path, max_events=20000, jobs=None, timeout=900,
                    name="validate", heap="3g"):
    """Validate trace_path with the trace spec `module`; returns (bad, drift, n_events, tlc_results).
    `at` fields are renumbered to line numbers of the whole trace."""
    pieces = split_trace(trace_path, max_events)
    if not pieces:
        raise Inconclusive("empty trace %s" % trace_path)
    dirs = []
    for i, (start, lines) in enumerate(pieces):
        d = ctx.sub("%s-%d" % (name, i))
        with open(os.path.join(d, "trace.ndjson"), "w") as f:
            f.writelines(lines)
        dirs.append(d)
    jobs = jobs or max(1, min(len(pieces), vlib.NCPU // 2))

    def one(i):
        return vlib.tlc(ctx, files, module, cfg, workers=1, timeout=timeout, workdir=dirs[i], heap=heap)

    with concurrent.futures.ThreadPoolExecutor(max_workers=jobs) as ex:
        results = list(ex.map(one, range(len(pieces))))
    bad, drift = [], []
    for (start, lines), r in zip(pieces, results):
        if not r.ok:
            raise Inconclusive("trace validation (%s) did not run: %s\n%s" %
                               (module, r.error or r.violated, r.out[-1500:]))
        res = vlib.obs_result(r.out)
        for rec in res[0]:
            rec["at"] += start - 1
            bad.append(rec)
        for rec in res[1]:
            rec["at"] += start - 1
            drift.append(rec)
    bad.sort(key=lambda b: b["at"])
    drift.sort(key=lambda b: b["at"])
    return bad, drift, sum(len(p[1]) for p in pieces), results


def trace_line(trace_path, at):
    with open(trace_path) as f:
        for i, ln in enumerate(f, 1):
            if i == at:
                return ln.strip()
    return ""


def trace_context(trace_path, at, reset_ev="New"):
    """The reset event that governs line `at` and the line itself (for messages and samples)."""
    new = ""
    marker = '"ev":"%s"' % reset_ev
    with open(trace_path) as f:
        for i, ln in enumerate(f, 1):
            if marker in ln:
                new = ln.strip()
            if i == at:
                return new, ln.strip()
    return new, ""


def signatures(finding):
    return [finding.get("signature", "")] + list(finding.get("signature_also", []))


def judge(ctx, pid, bad, trace_path, tag="trace"):
    """Observer rejections -> ctx.known (matching an OPEN finding of this property) or ctx.violations."""
    if not bad:
        return
    opened = vlib.open_findings(pid)
    by_finding = {}
    other = {}
    for b in bad:
        hit = None
        for f in opened:
            if any(s and b["why"].startswith(s) for s in signatures(f)):
                hit = f
                break
        if hit:
            by_finding.setdefault(hit["id"], (hit, []))[1].append(b)
        else:
            other.setdefault(b["why"], []).append(b)
    for fid, (f, recs) in sorted(by_finding.items()):
        first = recs[0]
        new, ln = trace_context(trace_path, first["at"])
        ctx.known.append({"finding": fid,
                          "what": "%s [%s] %s; %d rejected events, first at line %d: %s | %s" %
                                  (fid, f.get("status"), f.get("signature"), len(recs), first["at"],
                                   _short(new), _short(ln))})
    if other:
        rp = vlib.save_replay(ctx, trace_path, tag)
        for why, recs in sorted(other.items(), key=lambda kv: kv[1][0]["at"]):
            first = recs[0]
            new, ln = trace_context(trace_path, first["at"])
            ctx.violations.append({"what": "%s (trace %s, line %d); %d rejected events; %s | %s" %
                                           (why, first["trace"], first["at"], len(recs), _short(new), _short(ln)),
                                   "replay": rp})


def report_drift(ctx, pid, drift, trace_path):
    if not drift:
        return
    ctx.drift += len(drift)
    first = drift[0]
    new, ln = trace_context(trace_path, first["at"])
    log("CONFORMANCE-DRIFT property=%s %s (line %d); %d events; %s | %s" %
        (pid, first["why"], first["at"], len(drift), _short(new), _short(ln)))


def _short(s, n=260):
    return s if len(s) <= n else s[:n] + "..."


def sample_events(trace_path, n=6):
    out = []
    with open(trace_path) as f:
        for ln in f:
            if ln.strip():
                out.append(json.loads(ln))
            if len(out) >= n:
                break
    return out


def cfg_with(cfg_rel, subst):
    """Text of spec/<cfg_rel> with `NAME = value` constants replaced ({name: tla text})."""
    text = open(os.path.join(vlib.SPEC, cfg_rel)).read()
    for k, v in subst.items():
        text, cnt = re.subn(r"^(\s*%s\s*=\s*).*$" % re.escape(k), lambda m: m.group(1) + str(v), text, flags=re.M)
        if cnt != 1:
            raise Inconclusive("constant %s not found exactly once in %s" % (k, cfg_rel))
    return text


def tla_bool(b):
    return "TRUE" if b else "FALSE"
