"""C11 - z.Buffer returns what was written, in order, and sorts correctly.

1. TLC model-checks the design spec spec/z/Buffer.tla (records / runs of bytes, the growth rule with
   the auto-mmap switch and the WithMaxSize panic transcribed from the code, symbolic sizes straddling
   offset+n = curSz, the switch threshold and maxSz +/- 1) and the implementation-shaped sorter
   spec/z/BufferSort.tla (chunks of ChunkN = 2, sort.Slice per chunk, merge tree, ties take right).
2. TLC -simulate writes behaviours of Buffer.tla (operation histories with symbolic sizes) and inputs
   of BufferSort.tla (merge-tree shapes); together with seeded random histories and slice counts around
   the 1024 chunk boundaries they are executed on the real z.Buffer (calloc, mmap tmp / persistent
   files, calloc with WithAutoMmap; with and without WithMaxSize) by harness/z/buffer_test.go.txt.
3. The recorded NDJSON trace (decoded contents after every call) is validated by TLC against
   spec/z/TraceBuffer.tla: `bad` = C11 as stated, `drift` = capacity/mode differ from the design.
"""
import concurrent.futures
import json
import os
import re
import shutil

import vlib
from vlib import Inconclusive, log

FILES = ["z/BufferOps.tla", "z/Buffer.tla", "z/MC_Buffer.cfg", "z/MC_Buffer_thorough.cfg", "z/MC_Buffer_growcap.cfg",
         "z/BufferSort.tla", "z/MC_BufferSort.cfg", "z/MC_BufferSort_thorough.cfg",
         "z/TraceBuffer.tla", "z/TraceBuffer.cfg"]


def _cfg(name, subst, drop_props=False):
    txt = open(os.path.join(vlib.SPEC, "z", name)).read()
    for a, b in subst:
        if a not in txt:
            raise Inconclusive("cfg %s has no %r" % (name, a))
        txt = txt.replace(a, b)
    if drop_props:
        txt = "\n".join(l for l in txt.split("\n") if not l.startswith(("INVARIANTS", "PROPERTIES")))
    return txt


def run(ctx, pid):
    replay = os.environ.get("VERIF_REPLAY")
    if replay:
        return judge(ctx, pid, replay, None, None, None, [], [])

    # 1. exhaustive design checks (run in the background while the behaviours are generated and replayed)
    mc_cfg = ctx.pick("MC_Buffer.cfg", "MC_Buffer_thorough.cfg")
    sort_cfg = ctx.pick("MC_BufferSort.cfg", "MC_BufferSort_thorough.cfg")
    d_mc, d_mcs = ctx.sub("mc"), ctx.sub("mcsort")
    pool = concurrent.futures.ThreadPoolExecutor(max_workers=3)
    ctx.c11_growcap = None
    if not ctx.quick():     # the branch "don't allocate more than 1GB at a time" of Grow, with the cap scaled down to 100
        d_gc = ctx.sub("mcgrowcap")
        ctx.c11_growcap = pool.submit(vlib.tlc, ctx, FILES, "Buffer", "MC_Buffer_growcap.cfg", workdir=d_gc, timeout=900, workers=2)
    f_mc = pool.submit(vlib.tlc, ctx, FILES, "Buffer", mc_cfg, workdir=d_mc, timeout=ctx.pick(400, 1500),
                       workers=max(2, vlib.NCPU - 4))
    f_mcs = pool.submit(vlib.tlc, ctx, FILES, "BufferSort", sort_cfg, workdir=d_mcs, timeout=ctx.pick(400, 900), workers=4)
    try:
        return _drive(ctx, pid, f_mc, f_mcs)
    finally:
        pool.shutdown(wait=True)


def _design_results(ctx, f_mc, f_mcs):
    mc, mcs = f_mc.result(), f_mcs.result()
    if ctx.c11_growcap is not None:
        gc = ctx.c11_growcap.result()
        if not gc.ok:
            raise Inconclusive("design spec Buffer.tla (growth cap 100) did not pass TLC: %s" % (gc.violated or gc.error))
    if not mc.ok:
        raise Inconclusive("design spec Buffer.tla did not pass TLC: %s" % (mc.violated or mc.error))
    if not mcs.ok:
        raise Inconclusive("design spec BufferSort.tla did not pass TLC: %s" % (mcs.violated or mcs.error))
    return mc, mcs


def _drive(ctx, pid, f_mc, f_mcs):
    # 2. behaviours -> operation histories; sorter inputs -> merge-tree shapes
    nsim = ctx.pick(300, 2500)
    sim = vlib.tlc(ctx, FILES, "Buffer",
                   _cfg("MC_Buffer.cfg", [("MaxOps = 3", "MaxOps = 14"), ("CapBound = 300", "CapBound = 5000")], True),
                   name="sim", workers=1, timeout=900, simulate={"num": nsim, "depth": 15, "file": "beh"})
    if not sim.ok:
        raise Inconclusive("simulation of Buffer.tla failed: %s" % (sim.error or sim.violated))
    scen = []
    for fn in vlib.list_behaviour_files(sim.dir, "beh"):
        steps = vlib.parse_behaviour_file(fn, want_states=True)
        if not steps or steps[0]["action"] != "Init":
            raise Inconclusive("unexpected behaviour file %s" % fn)
        st0 = steps[0]["state"]
        ops = []
        for st in steps[1:]:
            last = st["state"]["last"]
            if last["op"] in ("SortSlice", "SortSliceBetween"):
                ops.append({"op": last["op"], "cmp": last["cmp"], "i": last["lo"], "j": last["hi"]})
            elif last["op"] == "Reset":
                ops.append({"op": "Reset"})
            else:
                if st["action"] != "Do" or st["args"][0] != last["op"]:
                    raise Inconclusive("cannot map model step %s/%s in %s" % (st["action"], last["op"], fn))
                ops.append({"op": last["op"], "sym": st["args"][1]})
        scen.append({"mode": st0["mode"], "maxSz": st0["maxSz"], "auto": st0["auto"], "ops": ops})
    nshape = ctx.pick(12, 120)
    ssim = vlib.tlc(ctx, FILES, "BufferSort", _cfg("MC_BufferSort.cfg", [("MaxLen = 7", "MaxLen = 8")], True),
                    name="simsort", workers=1, timeout=600, simulate={"num": nshape, "depth": 3, "file": "shape"})
    if not ssim.ok:
        raise Inconclusive("simulation of BufferSort.tla failed: %s" % (ssim.error or ssim.violated))
    shapes = []
    for fn in vlib.list_behaviour_files(ssim.dir, "shape"):
        steps = vlib.parse_behaviour_file(fn, want_states=True)
        shapes.append(list(steps[0]["state"]["inp"]))
    inp = os.path.join(ctx.scratch, "buffer_input.json")
    with open(inp, "w") as f:
        json.dump({"scen": scen, "shapes": shapes}, f)

    # 3. drive the real buffer
    rc, out, d = vlib.go_test(ctx, "./z", {
        "z/verif_trace_test.go": ("common/vtrace_test.go.txt", "z"),
        "z/verif_buffer_test.go": "z/buffer_test.go.txt",
    }, "^TestVerifBuffer$", env={"VERIF_INPUT": inp, "VERIF_RANDOM": ctx.pick(120, 2000),
                                  "VERIF_SORTS_PER_COUNT": ctx.pick(1, 7)},
        timeout=ctx.pick(300, 1200))
    shutil.rmtree(os.path.join(d, "bufmm"), ignore_errors=True)     # mmap files, should the driver have died
    trace = os.path.join(d, "buffer.ndjson")
    aborted = False
    if rc != 0:
        # The buffer's own z.assert ends the process (log.Fatalf): the flushed trace then ends with the
        # Call that never returned, which the trace spec judges.  Anything else is a machinery failure.
        lines = open(trace).read().split("\n") if os.path.exists(trace) else []
        lines = [x for x in lines if x]
        dangling = False
        if lines:
            try:
                dangling = json.loads(lines[-1]).get("ev") == "Call"
            except ValueError:      # a torn last line: drop it, look at the one before
                lines = lines[:-1]
                dangling = bool(lines) and json.loads(lines[-1]).get("ev") == "Call"
        if "Assertion failure" in out and dangling:
            aborted = True
            with open(trace, "w") as f:
                f.write("\n".join(lines) + "\n")
            ctx.notes.append("the driver process was ended by z.assert inside a buffer call; the trace up to that call was judged")
        else:
            raise Inconclusive("buffer driver failed (rc=%s):\n%s" % (rc, out[-2500:]))
    if not os.path.exists(trace):
        raise Inconclusive("buffer driver wrote no trace:\n%s" % out[-1500:])
    summ = {}
    sp = os.path.join(d, "buffer.summary.json")
    if os.path.exists(sp):
        summ = json.load(open(sp))
    elif not aborted:
        raise Inconclusive("buffer driver wrote no summary")
    mc, mcs = _design_results(ctx, f_mc, f_mcs)
    return judge(ctx, pid, trace, mc, mcs, summ, scen, shapes)


def split_trace(trace, parts):
    """Split the NDJSON trace at New events into at most `parts` pieces of similar size.
    Returns [(first_line_number, [lines])]."""
    lines = [x for x in open(trace).read().split("\n") if x]
    starts = [i for i, x in enumerate(lines) if '"ev":"New"' in x]
    if not starts or starts[0] != 0:
        raise Inconclusive("trace does not start with a New event")
    total = sum(len(x) for x in lines)
    target = total / float(parts)
    out, cur, cur_sz, first = [], [], 0, 1
    bounds = set(starts)
    for i, x in enumerate(lines):
        if i in bounds and cur and cur_sz >= target:
            out.append((first, cur))
            cur, cur_sz, first = [], 0, i + 1
        cur.append(x)
        cur_sz += len(x)
    if cur:
        out.append((first, cur))
    return out, len(lines), len(starts)


def validate(ctx, trace):
    pieces, nlines, ntraces = split_trace(trace, max(8, os.path.getsize(trace) // (6 << 20)))
    dirs = []
    for k, (first, lines) in enumerate(pieces):
        d = ctx.sub("validate%d" % k)
        with open(os.path.join(d, "trace.ndjson"), "w") as f:
            f.write("\n".join(lines) + "\n")
        dirs.append(d)

    def one(k):
        return vlib.tlc(ctx, FILES, "TraceBuffer", "TraceBuffer.cfg", workers=1, timeout=1500, workdir=dirs[k],
                        heap="4g")

    with concurrent.futures.ThreadPoolExecutor(max_workers=ctx.pick(8, 6)) as ex:
        results = list(ex.map(one, range(len(pieces))))
    bad, drift = [], []
    for (first, lines), r in zip(pieces, results):
        if not r.ok:
            raise Inconclusive("trace validation did not run: %s\n%s" % (r.error or r.violated, r.out[-1500:]))
        if r.generated != len(lines) + 1 and r.distinct != len(lines) + 1:
            raise Inconclusive("trace validation consumed %s of %d lines" % (r.distinct, len(lines)))
        b, dr = vlib.obs_result(r.out)
        for x in b:
            x["at"] += first - 1
        for x in dr:
            x["at"] += first - 1
        bad += b
        drift += dr
    return bad, drift, nlines, ntraces


def classify(pid, bad):
    """Split rejections into (violations, known): a rejection whose `why` matches the signature
    (regular expression) of an OPEN finding of this property is a known finding."""
    opened = vlib.open_findings(pid)
    viol, known = [], {}
    for b in bad:
        hit = None
        for k in opened:
            try:
                if re.search(k.get("signature", "$^"), b["why"]):
                    hit = k
                    break
            except re.error:
                continue
        if hit:
            known.setdefault(hit["id"], (hit, []))[1].append(b)
        else:
            viol.append(b)
    return viol, known


def judge(ctx, pid, trace, mc, mcs, summ, scen, shapes):
    bad, drift, nlines, ntraces = validate(ctx, trace)
    viol, known = classify(pid, bad)
    all_lines = None
    if viol or known or drift:
        all_lines = [x for x in open(trace).read().split("\n") if x]
    if viol:
        by_why = {}
        for b in viol:
            by_why.setdefault(b["why"], []).append(b)
        rp = trace if os.environ.get("VERIF_REPLAY") else _save_rejected(ctx, all_lines, viol)
        for why, bs in sorted(by_why.items(), key=lambda kv: min(x["at"] for x in kv[1])):
            first = sorted(bs, key=lambda b: b["at"])[0]
            ctx.violations.append({"what": "%s (buffer %s, trace line %s: %s); %d rejected events" %
                                   (why, first["trace"], first["at"], _brief(all_lines, first["at"]), len(bs)),
                                   "replay": rp})
    for fid, (k, bs) in known.items():
        first = sorted(bs, key=lambda b: b["at"])[0]
        ctx.known.append({"finding": fid, "what": "%s: %s (buffer %s, trace line %s); %d events" %
                          (fid, k.get("what", first["why"]), first["trace"], first["at"], len(bs))})
    if drift:
        ctx.drift = len(drift)
        first = sorted(drift, key=lambda b: b["at"])[0]
        log("CONFORMANCE-DRIFT property=%s %s (line %s: %s); %d events" %
            (pid, first["why"], first["at"], _brief(all_lines, first["at"]), len(drift)))
    samples = []
    with open(trace) as f:
        for x in f:
            if len(samples) >= 8:
                break
            if len(x) < 1500:
                samples.append(json.loads(x))
    cov = {
        "states": (mc.distinct if mc else 0) + (mcs.distinct if mcs else 0),
        "transitions": (mc.generated if mc else 0) + (mcs.generated if mcs else 0),
        "design_states_Buffer": mc.distinct if mc else None,
        "design_states_BufferSort": mcs.distinct if mcs else None,
        "traces_validated_against_impl": ntraces,
        "events_validated": nlines,
        "model_behaviours_replayed": len(scen),
        "sort_shapes_replayed": len(shapes),
        "driver_stats": summ,
        "samples": samples,
        "exhaustive": True,
        "rule": "design: every history of <= %d operations (5 write calls x 12 symbolic sizes, Reset, SortSlice/"
                "SortSliceBetween x 3 comparators) x {calloc, mmap} x maxSz {0,40,100} x autoMmap {0,184}, capacity 64; "
                "sorter: every key sequence over 3 keys of <= %d slices with chunks of 2; real code: every simulated "
                "behaviour (<= 14 calls, sizes resolved against the live capacity, capacities 64..64Ki), seeded random "
                "histories, slice counts 1..3073 around the 1024 chunk boundaries x 7 comparators, merge-tree shapes "
                "scaled to 1024-slice chunks; one trace per buffer" % (ctx.pick(3, 5), ctx.pick(7, 11)),
    }
    vlib.write_evidence(ctx, "model_checking", cov, [
        "TLC explores the design only for the stated small constants",
        "payload bytes are a PRF of (id, length); contents are decoded back to ids by the harness and compared by TLC",
        "the 1 GiB growth cap of Grow is modelled (constant GrowCap) but not reached on the real buffer (capacities <= 64 MiB)",
        "WithMaxSize is read as a limit on the used length (the code's own test): the capacity may exceed it",
        "comparators are strict weak orders given by an integer key; the harness reports the key of the bytes found",
        "no jemalloc build (calloc_nojemalloc.go); Linux mremap path of MmapFile.Truncate",
    ])


def _save_rejected(ctx, lines, viol):
    """Replay file = the sub-traces (New .. next New) of the first 20 buffers with a rejected event."""
    starts = [i for i, x in enumerate(lines) if '"ev":"New"' in x]
    want, seen = [], set()
    for b in sorted(viol, key=lambda b: b["at"]):
        k = max(i for i in starts if i <= b["at"] - 1)
        if k not in seen:
            seen.add(k)
            want.append(k)
        if len(want) >= 20:
            break
    out = []
    for k in want:
        nxt = [i for i in starts if i > k]
        out += lines[k:(nxt[0] if nxt else len(lines))]
    return vlib.save_replay_text(ctx, "\n".join(out) + "\n", "trace", ext=".ndjson")


def _brief(lines, at):
    try:
        e = json.loads(lines[at - 1])
    except Exception:
        return "?"
    keep = {k: e[k] for k in ("ev", "op", "id", "n", "panic", "lenNP", "curSz", "mode", "cmp", "lo", "hi", "msg") if k in e}
    s = json.dumps(keep)
    return s[:300]
