"""Registry fragment: count-min sketch + TinyLFU (C18)."""

CHECKS = {
    "C18": {
        "module": "c18_sketch",
        "engine": "tlc-sketch",
        "category": "model_checking",
        "text": "TLC checks spec/cache/Sketch.tla: the packed-counter byte operations (cmRow increment/get/reset/clear "
                "transcribed) exhaustively over all 256 byte values x 4 operations for nibble independence, saturation "
                "and halving; cmSketch (4 rows, min) and the TinyLFU wrapper (doorkeeper with a false-positive relation, "
                "incrs/resetAt, reset at every position) by bounded exploration against the C18 predicates; next2Power's "
                "sizing. Every byte-level transition, TLC-simulated behaviours and seeded random sequences (aging reset "
                "at every position) are executed on the real cmRow/cmSketch/tinyLFU in an in-package test; estimates of "
                "all keys, the full counter table, doorkeeper answers and incrs are logged after each step and the trace "
                "is validated by TLC against spec/cache/TraceSketch.tla.",
        "design_ref": "DESIGN.md section 6 (C18)",
        "note": "Sketch layer explored for 4x4 counters, 4 keys, <= 6 / 10 operations quick / thorough (8 / 12 for the bare sketch); real-code "
                "verdicts cover the keys of each trace's universe. Estimate = min over rows is not demanded by C18 as "
                "stated (and is indistinguishable from max in this code, whose rows collide identically); a deviation "
                "there shows as CONFORMANCE-DRIFT only.",
        "technique": "TLA+ design spec model-checked with TLC; TLC-generated behaviours replayed on the Go code; "
                     "recorded NDJSON traces validated by TLC against a TLA+ trace specification",
    },
}
