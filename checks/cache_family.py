"""Cache properties (C01-C05, C07, C09, C13-C15, C17 ...): one pipeline, per-property plans.

  1. TLC model-checks spec/cache/Ristretto.tla exhaustively in the configurations of the property
     (toggles = the code as it is; a violated invariant yields a counterexample = a *lead*; the run
     is then repeated with the corresponding modelled repair until the design passes, so that the
     rest of the state space is explored too).
  2. Leads and `tlc -simulate` behaviours of the property's simulation configurations are forced on
     the real cache by the gate scheduler (harness/cache/sched_test.go.txt, testing/synctest) and the
     abstract state is compared after every step (conformance drift).
  3. The recorded NDJSON traces are judged by TLC with the observers spec/obs/ObsCache.tla; a
     rejection for this property is a VIOLATION unless it carries the signature of an open known
     finding.
"""
import json
import os

import cachelib
import vlib
from vlib import Inconclusive, log

ALL_INV = ["TypeOK", "C01_Provenance", "C02_NoServeAfterExit", "C03_UsedIsSum", "C03_Admission", "C03_Remaining",
           "C04_AtMostOnce", "C04_NotWhileRetrievable", "C04_ClearOwes", "C05_DelWins", "C09_FitAdmitted",
           "C13_Agree", "C13_Indexed", "C14_SweepOnlyExpired", "C15_ClearClean", "C17_Conservation"]

# ---- configurations of Ristretto.tla -------------------------------------------------------------
CONFIGS = {
    # two clients, any interleaving with the applier, tight capacity, buffer of one
    "write3": {"MaxOps": 3},
    "write4": {"MaxOps": 4},
    # deeper, with the VIEW that hides history variables: only the invariants that do not read history are checked
    "write5_view": {"MaxOps": 5, "_view": "ImplOnlyView", "_inv": ["TypeOK", "C03_UsedIsSum", "C13_Agree", "C13_Indexed", "C08_NoHang"]},
    "handoff5_view": {"Keys": [1], "Hashes": [1], "Clients": [1, 2, 3], "MaxOps": 5, "Ops": ["set", "del", "wait", "clear"],
                      "Costs": [1], "InitMaxCost": 2, "MaxCosts": [2], "_view": "ImplOnlyView",
                      "_inv": ["TypeOK", "C03_UsedIsSum", "C13_Agree", "C08_NoHang"]},
    # sampling / admission: one client, three keys, costs and capacities around the fit boundary
    "cost4": {"Keys": [1, 2, 3], "Hashes": [1, 2, 3], "Clients": [1], "MaxOps": 4, "Ops": ["set", "del", "get", "maxcost"],
              "BufCap": 2, "Costs": [1, 2, 3], "InitMaxCost": 3, "MaxCosts": [3, 4], "MaxGets": 2},
    "cost5": {"Keys": [1, 2, 3], "Hashes": [1, 2, 3], "Clients": [1], "MaxOps": 5, "Ops": ["set", "del", "get", "maxcost"],
              "BufCap": 2, "Costs": [1, 2, 3], "InitMaxCost": 3, "MaxCosts": [3, 4], "MaxGets": 2},
    "cost6": {"Keys": [1, 2, 3], "Hashes": [1, 2, 3], "Clients": [1], "MaxOps": 6, "Ops": ["set", "del", "get", "maxcost"],
              "BufCap": 2, "Costs": [1, 2, 3], "InitMaxCost": 3, "MaxCosts": [3, 4], "MaxGets": 2},
    # internal cost + Config.Cost
    "costfn": {"Keys": [1, 2], "Hashes": [1, 2], "Clients": [1], "MaxOps": 4, "Ops": ["set", "del", "get"],
               "BufCap": 2, "Costs": [0, 3], "CostFn": 2, "ItemSize": 56, "InitMaxCost": 116, "MaxCosts": [116], "MaxGets": 2},
    # expiry: one client against the sweep, every position of a rewrite relative to the sweep
    "ttl2": {"Keys": [1], "Hashes": [1], "Clients": [1], "MaxOps": 2, "Ops": ["set", "del"], "Costs": [1],
             "InitMaxCost": 10, "MaxCosts": [10], "TTLs": [0, 1, 4], "MaxTime": 6},
    "ttl3": {"Keys": [1, 2], "Hashes": [1, 2], "Clients": [1], "MaxOps": 3, "Ops": ["set", "del", "wait"], "Costs": [1],
             "InitMaxCost": 10, "MaxCosts": [10], "TTLs": [0, 1, 4], "MaxTime": 6, "BufCap": 2},
    # Clear / Wait / Del hand-off with a buffer of one
    "handoff3": {"Keys": [1], "Hashes": [1], "Clients": [1, 2], "MaxOps": 3, "Ops": ["set", "del", "wait", "clear"],
                 "Costs": [1], "InitMaxCost": 2, "MaxCosts": [2]},
    "handoff4": {"Keys": [1], "Hashes": [1], "Clients": [1, 2], "MaxOps": 4, "Ops": ["set", "del", "wait", "clear"],
                 "Costs": [1], "InitMaxCost": 2, "MaxCosts": [2]},
    # liveness beyond handoff3: one more call, without Set (Wait / Del / Clear hand-offs only)
    "live4": {"Keys": [1], "Hashes": [1], "Clients": [1, 2], "MaxOps": 4, "Ops": ["del", "wait", "clear"],
              "Costs": [1], "InitMaxCost": 2, "MaxCosts": [2]},
    "close3": {"Keys": [1, 2], "Hashes": [1, 2], "Clients": [1], "MaxOps": 4, "Ops": ["set", "del", "wait", "clear", "close", "get"],
               "Costs": [1], "InitMaxCost": 2, "MaxCosts": [2], "BufCap": 2, "TTLs": [0, 2], "MaxTime": 1},
    "close4": {"Keys": [1, 2], "Hashes": [1, 2], "Clients": [1], "MaxOps": 5, "Ops": ["set", "del", "wait", "clear", "close", "get"],
               "Costs": [1], "InitMaxCost": 2, "MaxCosts": [2], "BufCap": 2, "TTLs": [0, 2], "MaxTime": 1},
    # engineered collisions on the primary hash
    "coll3": {"Keys": [1, 2, 3], "Hashes": [1, 2], "HashOf": "CollHash", "ConfOf": "CollConf", "MaxOps": 3,
              "Ops": ["set", "del", "get"], "Costs": [1], "InitMaxCost": 3, "MaxCosts": [3], "BufCap": 2},
    "coll4": {"Keys": [1, 2, 3], "Hashes": [1, 2], "HashOf": "CollHash", "ConfOf": "CollConf", "MaxOps": 4,
              "Ops": ["set", "del", "get"], "Costs": [1], "InitMaxCost": 3, "MaxCosts": [3], "BufCap": 2},
    # ShouldUpdate refusals
    "refuse4": {"Keys": [1], "Hashes": [1], "Clients": [1, 2], "MaxOps": 4, "Ops": ["set", "del", "wait"], "Costs": [1],
                "InitMaxCost": 2, "MaxCosts": [2], "RefuseVals": [2, 3]},
    # single client, room to spare: the cache must behave as the reference map (C06)
    "ref4": {"Keys": [1, 2], "Hashes": [1, 2], "Clients": [1], "MaxOps": 4, "Ops": ["set", "del", "get", "wait"], "Costs": [1],
             "InitMaxCost": 10, "MaxCosts": [10], "BufCap": 2, "TTLs": [0, 2], "MaxTime": 3},
    "ref5": {"Keys": [1, 2], "Hashes": [1, 2], "Clients": [1], "MaxOps": 5, "Ops": ["set", "del", "get", "wait"], "Costs": [1],
             "InitMaxCost": 10, "MaxCosts": [10], "BufCap": 2, "TTLs": [0, 2], "MaxTime": 3},
    # ---- simulation-only (too large to exhaust) ----
    "sim_ref": {"Keys": [1, 2, 3], "Hashes": [1, 2, 3], "Clients": [1], "MaxOps": 12, "Ops": ["set", "del", "get", "wait", "gettl", "clear"],
                "Costs": [1, 2], "InitMaxCost": 30, "MaxCosts": [30], "BufCap": 3, "TTLs": [0, 1, 3], "MaxTime": 8, "MaxGets": 3},
    "sim_write": {"Keys": [1, 2, 3], "Hashes": [1, 2, 3], "MaxOps": 10, "BufCap": 2, "InitMaxCost": 3, "MaxCosts": [3], "MaxGets": 3},
    "sim_cost": {"Keys": [1, 2, 3, 4], "Hashes": [1, 2, 3, 4], "Clients": [1, 2], "MaxOps": 12, "Ops": ["set", "del", "get", "maxcost", "wait"],
                 "BufCap": 3, "Costs": [1, 2, 3], "InitMaxCost": 4, "MaxCosts": [4, 6], "MaxGets": 4},
    "sim_costfn": {"Keys": [1, 2, 3], "Hashes": [1, 2, 3], "Clients": [1, 2], "MaxOps": 9, "Ops": ["set", "del", "get", "wait"],
                   "BufCap": 2, "Costs": [0, 3, 60], "CostFn": 2, "ItemSize": 56, "InitMaxCost": 175, "MaxCosts": [175], "MaxGets": 3},
    "sim_ttl": {"Keys": [1, 2], "Hashes": [1, 2], "Clients": [1, 2], "MaxOps": 6, "Ops": ["set", "del", "wait", "get", "gettl", "iter"],
                "BufCap": 2, "Costs": [1], "InitMaxCost": 20, "MaxCosts": [20], "TTLs": [0, 1, 4], "MaxTime": 7},
    "sim_handoff": {"Keys": [1, 2], "Hashes": [1, 2], "Clients": [1, 2, 3], "MaxOps": 8, "Ops": ["set", "del", "wait", "clear", "get"],
                    "BufCap": 1, "Costs": [1, 2], "InitMaxCost": 2, "MaxCosts": [2]},
    "sim_clear1": {"Keys": [1, 2], "Hashes": [1, 2], "Clients": [1], "MaxOps": 9, "Ops": ["set", "del", "wait", "clear", "get"],
                   "BufCap": 3, "Costs": [1], "InitMaxCost": 2, "MaxCosts": [2], "TTLs": [0, 2], "MaxTime": 3},
    "sim_close": {"Keys": [1, 2], "Hashes": [1, 2], "Clients": [1, 2], "MaxOps": 9, "Ops": ["set", "del", "wait", "clear", "close", "get", "iter"],
                  "BufCap": 2, "Costs": [1], "InitMaxCost": 2, "MaxCosts": [2], "TTLs": [0, 2], "MaxTime": 3},
    "sim_coll": {"Keys": [1, 2, 3], "Hashes": [1, 2], "HashOf": "CollHash", "ConfOf": "CollConf", "MaxOps": 9,
                 "Ops": ["set", "del", "get", "wait"], "Costs": [1], "InitMaxCost": 3, "MaxCosts": [3], "BufCap": 2},
    "sim_coll_ttl": {"Keys": [1, 2, 3], "Hashes": [1, 2], "HashOf": "CollHash", "ConfOf": "CollConf", "MaxOps": 9,
                     "Ops": ["set", "del", "get", "wait"], "Costs": [1], "InitMaxCost": 3, "MaxCosts": [3], "BufCap": 2,
                     "TTLs": [0, 1, 3], "MaxTime": 6},
    "sim_str": {"Keys": [1, 2, 3], "Hashes": [1, 2, 3], "ConfOf": "StrConf", "MaxOps": 9, "Ops": ["set", "del", "get", "wait"],
                "Costs": [1, 2], "InitMaxCost": 3, "MaxCosts": [3], "BufCap": 2},
    "sim_refuse_ttl": {"Keys": [1, 2], "Hashes": [1, 2], "Clients": [1, 2], "MaxOps": 8, "Ops": ["set", "del", "wait", "get", "gettl"],
                       "Costs": [1], "InitMaxCost": 10, "MaxCosts": [10], "RefuseVals": [2, 3, 5], "BufCap": 2, "TTLs": [0, 1, 4], "MaxTime": 7},
    "sim_refuse": {"Keys": [1, 2], "Hashes": [1, 2], "Clients": [1, 2], "MaxOps": 8, "Ops": ["set", "del", "wait", "get", "clear"],
                   "Costs": [1], "InitMaxCost": 2, "MaxCosts": [2], "RefuseVals": [2, 3, 5], "BufCap": 2},
}

# invariants checked in a configuration (collision configs skip the clauses that exclude collisions)
INV_FOR = {
    "coll3": ["TypeOK", "C01_Provenance", "C02_NoServeAfterExit", "C03_UsedIsSum", "C03_Admission"],
    "coll4": ["TypeOK", "C01_Provenance", "C02_NoServeAfterExit", "C03_UsedIsSum", "C03_Admission"],
}

# per property: exhaustive configs per tier, simulation configs (name, behaviours quick, thorough, depth)
PLAN = {
    "C01": {"keytypes": True, "mc": {"quick": ["coll3"], "thorough": ["coll4", "write4"]},
            "sim": [("sim_coll", 300, 6000, 60), ("sim_coll_ttl", 300, 5000, 60), ("sim_str", 200, 4000, 60)]},
    "C02": {"mc": {"quick": ["write3"], "thorough": ["write4", "handoff4"]},
            "sim": [("sim_write", 400, 6000, 60), ("sim_ttl", 300, 4000, 60), ("sim_handoff", 200, 3000, 60)]},
    "C03": {"mc": {"quick": ["cost4", "costfn"], "thorough": ["cost5", "costfn", "write5_view"]},
            "sim": [("sim_cost", 500, 8000, 70), ("sim_costfn", 250, 3000, 60), ("sim_write", 150, 3000, 60)]},
    "C04": {"mc": {"quick": ["write3", "handoff3", "refuse4"], "thorough": ["write4", "handoff4", "refuse4", "ttl3"]},
            "sim": [("sim_write", 300, 4000, 60), ("sim_handoff", 300, 4000, 60), ("sim_refuse", 200, 3000, 60), ("sim_ttl", 200, 3000, 60)]},
    "C05": {"mc": {"quick": ["write3"], "thorough": ["write4", "handoff4"]},
            "sim": [("sim_write", 500, 8000, 60), ("sim_handoff", 300, 4000, 60)]},
    "C06": {"mc": {"quick": ["ref4"], "thorough": ["ref5"]},
            "sim": [("sim_ref", 800, 12000, 70)]},
    "C07": {"mc": {"quick": ["ttl2"], "thorough": ["ttl3", "ref5"]},
            "sim": [("sim_ttl", 400, 8000, 60), ("sim_ref", 300, 6000, 70), ("sim_refuse_ttl", 250, 3000, 60)]},
    "C08": {"mc": {"quick": ["handoff3"], "thorough": ["handoff4", "handoff5_view"]}, "live": {"quick": ["handoff3"], "thorough": ["handoff3", "live4"]},
            "sim": [("sim_handoff", 400, 6000, 60), ("sim_close", 200, 3000, 60)], "free": (2, 10), "race": True, "ring": True},
    "C09": {"mc": {"quick": ["cost4"], "thorough": ["cost5"]},
            "sim": [("sim_cost", 800, 12000, 70)]},
    "C13": {"mc": {"quick": ["write3", "ttl2"], "thorough": ["write4", "ttl3", "handoff4", "write5_view"]},
            "sim": [("sim_write", 300, 4000, 60), ("sim_ttl", 300, 4000, 60), ("sim_handoff", 200, 3000, 60)]},
    "C14": {"mc": {"quick": ["ttl2"], "thorough": ["ttl3"]},
            "sim": [("sim_ttl", 800, 12000, 60)]},
    "C15": {"mc": {"quick": ["handoff3", "close3"], "thorough": ["handoff4", "close4"]},
            "sim": [("sim_close", 400, 6000, 60), ("sim_clear1", 300, 4000, 60), ("sim_handoff", 200, 3000, 60)]},
    "C17": {"ring": True, "mc": {"quick": ["write3", "cost4"], "thorough": ["write4", "cost5", "handoff4"]},
            "sim": [("sim_write", 250, 4000, 60), ("sim_cost", 250, 4000, 70), ("sim_costfn", 150, 2000, 60), ("sim_handoff", 150, 3000, 60)]},
}

# ---- coverage goals (spec/cache/MCRistretto.tla, G_*): corner states every quick run must reach on the real cache.
# (goal, configuration to search in); TLC -simulate with the invariant ~goal stops at the first behaviour reaching it.
GOAL_CFG = {
    "g_cost": {"Keys": [1, 2, 3, 4], "Hashes": [1, 2, 3, 4], "Clients": [1], "MaxOps": 16, "Ops": ["set", "get"], "BufCap": 3,
               "Costs": [1, 2, 3], "InitMaxCost": 4, "MaxCosts": [4], "MaxGets": 4},
    "g_costkey": {"Keys": [1, 2, 3, 4], "Hashes": [1, 2, 3, 4], "Clients": [1], "MaxOps": 14, "Ops": ["set", "get"], "BufCap": 3,
                  "Costs": [1], "KeyCost": "LastKeyCosts2", "InitMaxCost": 3, "MaxCosts": [3], "MaxGets": 4},
    "g_sweepfill": {"Keys": [1, 2, 3], "Hashes": [1, 2, 3], "Clients": [1], "MaxOps": 7, "Ops": ["set", "wait"], "BufCap": 3,
                    "Costs": [1], "InitMaxCost": 2, "MaxCosts": [2], "TTLs": [0, 1], "MaxTime": 8, "MaxGets": 0},
    "g_fit": {"Keys": [1, 2, 3], "Hashes": [1, 2, 3], "Clients": [1], "MaxOps": 12, "Ops": ["set", "del", "wait", "get"], "BufCap": 3,
              "Costs": [1, 3], "InitMaxCost": 9, "MaxCosts": [9], "MaxGets": 2},
    "g_zero": {"Keys": [1, 2], "Hashes": [1, 2], "Clients": [1], "MaxOps": 8, "Ops": ["set", "wait", "get"], "BufCap": 3,
               "Costs": [0, 2], "InitMaxCost": 2, "MaxCosts": [2], "TTLs": [0, 1], "MaxTime": 8, "MaxGets": 2},
    "g_many": {"Keys": [1, 2, 3, 4, 5, 6, 7, 8], "Hashes": [1, 2, 3, 4, 5, 6, 7, 8], "Clients": [1], "MaxOps": 12, "Ops": ["set", "get"],
               "BufCap": 4, "Costs": [1, 7], "InitMaxCost": 7, "MaxCosts": [7], "MaxGets": 2},
    "g_zerocost": {"Keys": [1, 2, 3], "Hashes": [1, 2, 3], "Clients": [1], "MaxOps": 10, "Ops": ["set", "get"],
                   "BufCap": 3, "Costs": [0, 2, 3], "InitMaxCost": 3, "MaxCosts": [3], "MaxGets": 3},
    "g_refuse_ttl": {"Keys": [1, 2], "Hashes": [1, 2], "Clients": [1], "MaxOps": 8, "Ops": ["set", "wait", "get"], "BufCap": 3,
                     "Costs": [1], "InitMaxCost": 10, "MaxCosts": [10], "TTLs": [0, 1, 4], "MaxTime": 6, "RefuseVals": [2, 3, 5]},
    "g_coll_ttl": {"Keys": [1, 2, 3], "Hashes": [1, 2], "HashOf": "CollHash", "ConfOf": "CollConf", "Clients": [1], "MaxOps": 8,
                   "Ops": ["set", "del", "wait", "get"], "Costs": [1], "InitMaxCost": 3, "MaxCosts": [3], "BufCap": 3, "TTLs": [0, 1], "MaxTime": 5},
    "g_victim": {"Keys": [1, 2, 3], "Hashes": [1, 2, 3], "Clients": [1, 2], "MaxOps": 8, "Ops": ["set", "del", "get"], "BufCap": 2,
                 "Costs": [1, 2], "InitMaxCost": 2, "MaxCosts": [2], "MaxGets": 2},
    "g_write": {"Keys": [1, 2], "Hashes": [1, 2], "Clients": [1, 2], "MaxOps": 8, "Ops": ["set", "del", "wait"], "BufCap": 1,
                "Costs": [1, 2], "InitMaxCost": 2, "MaxCosts": [2]},
    "g_upd": {"Keys": [1, 2, 3], "Hashes": [1, 2, 3], "Clients": [1], "MaxOps": 8, "Ops": ["set", "get"], "BufCap": 3,
              "Costs": [1, 2], "InitMaxCost": 2, "MaxCosts": [2], "MaxGets": 3},
    "g_ttl": {"Keys": [1, 2], "Hashes": [1, 2], "Clients": [1, 2], "MaxOps": 6, "Ops": ["set", "del", "wait", "clear"], "BufCap": 2,
              "Costs": [1], "InitMaxCost": 20, "MaxCosts": [20], "TTLs": [0, 1, 4], "MaxTime": 8},
    "g_ttl1": {"Keys": [1, 2], "Hashes": [1, 2], "Clients": [1], "MaxOps": 6, "Ops": ["set", "del", "wait", "get"], "BufCap": 2,
               "Costs": [1], "InitMaxCost": 20, "MaxCosts": [20], "TTLs": [0, 1, 4], "MaxTime": 8},
    "g_clear1": {"Keys": [1, 2], "Hashes": [1, 2], "Clients": [1], "MaxOps": 6, "Ops": ["set", "del", "wait", "clear", "get"], "BufCap": 3,
                 "Costs": [1], "InitMaxCost": 2, "MaxCosts": [2], "TTLs": [0, 2], "MaxTime": 2},
    "g_clear": {"Keys": [1, 2], "Hashes": [1, 2], "Clients": [1, 2, 3], "MaxOps": 8, "Ops": ["set", "del", "wait", "clear"], "BufCap": 3,
                "Costs": [1], "InitMaxCost": 2, "MaxCosts": [2]},
}
GOALS = {
    "G_FillAfterRejVict": "g_costkey", "G_RoomAfterSweepSkip": "g_sweepfill", "G_RejectWithVictims": "g_cost", "G_TwoVictims": "g_cost", "G_DuplicateVictim": "g_cost", "G_RaiseCost": "g_cost",
    "G_DroppedUpdate": "g_write", "G_BlockedDel": "g_write", "G_UpdateOfEvicted": "g_upd",
    "G_SweepWithBuffered": "g_ttl", "G_LateApply": "g_ttl", "G_ExpiredUnswept": "g_ttl",
    "G_ClearWithBacklog": "g_clear", "G_ClearWhileBusy": "g_clear", "G_ClearWithPending": "g_clear1",
    "G_SameBucketRewrite": "g_ttl", "G_TTLDropped": "g_ttl", "G_SweepSkip": "g_ttl", "G_SetDuringSweepDel": "g_ttl",
    "G_WaitBlockedInSend": "g_write", "G_TwoClears": "g_clear", "G_SetDuringClear": "g_clear",
    "G_SixVictims": "g_many", "G_ZeroCostVictim": "g_zerocost", "G_RefusedRewrite": "g_refuse_ttl",
    "G_TakeoverExpiredSlot": "g_coll_ttl", "G_CollidingDel": "g_coll_ttl",
    "G_ClearAfterGetsOnly": "g_clear1", "G_ExactFitAfterShrink": "g_fit", "G_ReAddAfterZeroSweep": "g_zero", "G_DelDuringVictims": "g_victim",
}
GOALS_FOR = {
    "C01": ["G_TakeoverExpiredSlot", "G_CollidingDel"],
    "C02": ["G_UpdateOfEvicted", "G_DroppedUpdate", "G_ClearWhileBusy", "G_DelDuringVictims", "G_SetDuringSweepDel", "G_SetDuringClear"],
    "C03": ["G_RoomAfterSweepSkip", "G_FillAfterRejVict", "G_RaiseCost", "G_TwoVictims", "G_DuplicateVictim", "G_UpdateOfEvicted", "G_ExactFitAfterShrink", "G_ReAddAfterZeroSweep", "G_SixVictims", "G_ZeroCostVictim"],
    "C04": ["G_DroppedUpdate", "G_RejectWithVictims", "G_ClearWithBacklog", "G_ExpiredUnswept", "G_ClearWithPending", "G_SetDuringClear", "G_RefusedRewrite"],
    "C05": ["G_BlockedDel", "G_ClearWithBacklog", "G_DelDuringVictims", "G_WaitBlockedInSend"],
    "C06": ["G_LateApply1", "G_ExpiredUnswept1", "G_SameBucketRewrite1", "G_TTLDropped1", "G_ExactFitAfterShrink"],
    "C07": ["G_ExpiredUnswept", "G_LateApply", "G_ExpiredUnswept1", "G_SameBucketRewrite1", "G_SameBucketRewrite", "G_TTLDropped1", "G_RefusedRewrite"],
    "C08": ["G_BlockedDel", "G_ClearWithBacklog", "G_ClearWhileBusy", "G_WaitBlockedInSend", "G_TwoClears"],
    "C09": ["G_RejectWithVictims", "G_TwoVictims", "G_DuplicateVictim", "G_ExactFitAfterShrink", "G_SixVictims", "G_ZeroCostVictim"],
    "C13": ["G_RejectWithVictims", "G_BlockedDel", "G_LateApply", "G_UpdateOfEvicted", "G_DelDuringVictims", "G_SweepSkip", "G_SetDuringClear", "G_SweepSkip1", "G_DuplicateVictim", "G_ReAddAfterZeroSweep"],
    "C14": ["G_SweepWithBuffered", "G_LateApply", "G_ExpiredUnswept", "G_SameBucketRewrite", "G_TTLDropped", "G_SweepSkip", "G_SetDuringSweepDel", "G_SweepSkip1", "G_SetDuringSweepDel1", "G_SweepWithBuffered1", "G_ReAddAfterZeroSweep", "G_RefusedRewrite"],
    "C15": ["G_ClearWithBacklog", "G_ClearWhileBusy", "G_ExpiredUnswept", "G_ClearWithPending", "G_TwoClears", "G_SetDuringClear", "G_ClearAfterGetsOnly"],
    "C17": ["G_LateApply", "G_RejectWithVictims", "G_DroppedUpdate", "G_UpdateOfEvicted", "G_ClearWhileBusy", "G_ClearWithPending", "G_SetDuringClear", "G_DuplicateVictim", "G_TwoVictims", "G_ExactFitAfterShrink"],
}


def goal_leads(ctx, pid):
    """Search, with TLC, one behaviour per coverage goal of the property; returns ([(cfgname, consts, steps, goal)], summary)."""
    from concurrent.futures import ThreadPoolExecutor
    jobs = []
    for g in GOALS_FOR.get(pid, []):
        single = g.endswith("1")            # the single-client variant of a TTL goal (reference traces)
        goal = g[:-1] if single else g
        jobs.append((g, goal, "g_ttl1" if single else GOALS[goal]))

    def one(job):
        g, goal, cfgname = job
        cfg, c = cachelib.render_cfg(GOAL_CFG[cfgname], invariants=[goal])
        r = vlib.tlc(ctx, cachelib.SPEC_FILES, "MCRistretto", cfg, name="goal-" + g, workers=2, timeout=300,
                     simulate={"num": 400000, "depth": 70, "file": None}, seed=ctx.seed * 31 + 7,
                     jvm=("-XX:ParallelGCThreads=2", "-XX:CICompilerCount=2"))
        steps = vlib.parse_error_trace(r.out) if r.violated else []
        return g, cfgname, c, steps, r

    leads, summ = [], []
    if not jobs:
        return leads, summ
    with ThreadPoolExecutor(max_workers=min(6, len(jobs))) as ex:
        for g, cfgname, c, steps, r in ex.map(one, jobs):
            summ.append({"goal": g, "config": cfgname, "reached": bool(steps), "behaviour_len": max(0, len(steps) - 1),
                         "wall_s": round(r.wall, 1)})
            if steps:
                leads.append((cfgname + "-" + g, c, steps, g))
            else:
                ctx.notes.append("coverage goal %s not reached by TLC simulation within its budget" % g)
    return leads, summ


OBSERVERS = {"C06": ("ObsCache", "ObsRef"), "C07": ("ObsCache", "ObsRef")}

# which modelled repair explains a violated invariant (value of `bad` in the last state helps)
def toggle_for(violated, last_state, current):
    badset = set(last_state.get("bad", [])) if last_state else set()
    cands = []
    if violated == "C13_Indexed":
        cands = ["FixLate"]
    elif violated == "C14_SweepOnlyExpired":
        cands = ["FixZero", "FixAtomic"] if any("without TTL" in b for b in badset) else ["FixAtomic"]
    for t in cands:
        if not current.get(t):
            return t
    return None


def model_check(ctx, pid, names):
    """Exhaustive TLC runs; returns (states, transitions, leads[(cfgname, consts, steps)], summaries)."""
    states = trans = 0
    leads = []
    summ = []
    for name in names:
        consts = dict(CONFIGS[name])
        view = consts.pop("_view", None)
        inv = consts.pop("_inv", None) or INV_FOR.get(name, ALL_INV)
        for round_ in range(5):
            cfg, c = cachelib.render_cfg(consts, invariants=inv, view=view)
            r = vlib.tlc(ctx, cachelib.SPEC_FILES, "MCRistretto", cfg, name="mc-%s-%d" % (name, round_),
                         timeout=ctx.pick(600, 3000))
            summ.append({"config": name, "toggles": {k: c[k] for k in ("FixZero", "FixAtomic", "FixLate")},
                         "distinct": r.distinct, "generated": r.generated, "depth": r.depth,
                         "result": "pass" if r.ok else (r.violated or r.error), "wall_s": round(r.wall, 1)})
            if r.ok:
                states += r.distinct
                trans += r.generated
                break
            if r.violated:
                steps = vlib.parse_error_trace(r.out)
                if steps:
                    leads.append((name, c, steps, r.violated))
                tg = toggle_for(r.violated, steps[-1]["state"] if steps else None, c)
                if tg is None:
                    # a violation no modelled repair explains: the lead is replayed; the design result
                    # itself never decides (verdict rule)
                    log("design spec: %s violated in %s (no modelled repair) - replaying the counterexample" % (r.violated, name))
                    ctx.notes.append("design-spec invariant %s violated in config %s; counterexample replayed on the real code" % (r.violated, name))
                    break
                log("design spec: %s violated in %s; counterexample kept as a lead, re-checking with %s" % (r.violated, name, tg))
                consts[tg] = True
                continue
            raise Inconclusive("TLC failed on config %s: %s\n%s" % (name, r.error, r.out[-2000:]))
    return states, trans, leads, summ


def run(ctx, pid):
    if os.environ.get("VERIF_REPLAY"):
        return replay_only(ctx, pid, os.environ["VERIF_REPLAY"])
    plan = PLAN[pid]
    states, trans, leads, mcsumm = model_check(ctx, pid, plan["mc"][ctx.tier])
    if states == 0:
        raise Inconclusive("no configuration of the design spec could be model-checked completely")
    live_summ = []
    for name in plan.get("live", {}).get(ctx.tier, []):
        # C08: no reachable state in which a call is stuck, and every call returns under fairness
        cfg, c = cachelib.render_cfg(CONFIGS[name], invariants=["TypeOK", "C08_NoHang"], properties=["C08_CallsReturn"], spec="FairSpec")
        r = vlib.tlc(ctx, cachelib.SPEC_FILES, "MCRistretto", cfg, name="live-" + name, timeout=ctx.pick(600, 3000))
        live_summ.append({"config": name, "distinct": r.distinct, "generated": r.generated,
                          "result": "pass" if r.ok else (r.violated or r.error), "wall_s": round(r.wall, 1)})
        if r.ok:
            states += r.distinct
            trans += r.generated
        elif r.violated:
            ctx.notes.append("design spec: %s violated in liveness config %s (lead only; the verdict comes from real executions)" % (r.violated, name))
            log("design spec: %s violated in %s (lead)" % (r.violated, name))
        else:
            raise Inconclusive("TLC failed on liveness config %s: %s" % (name, r.error))
    gleads, goal_summ = goal_leads(ctx, pid)
    leads = leads + gleads
    groups = []   # (consts resolved, jsonl path, n)
    samples = []
    # leads first
    by_cfg = {}
    for name, c, steps, violated in leads:
        by_cfg.setdefault(name, (c, []))[1].append(steps)
    for name, (c, lst) in by_cfg.items():
        out = os.path.join(ctx.scratch, "leads-%s.jsonl" % name)
        with open(out, "w") as f:
            for i, steps in enumerate(lst):
                rec = {"id": 900000 + i, "steps": []}
                rec.update(cachelib.classify(steps, c))
                for s in steps:
                    rec["steps"].append({"a": s["action"], "args": s["args"], "s": cachelib.project(s["state"], c)})
                f.write(json.dumps(rec) + "\n")
        groups.append((name + "-leads", c, out, len(lst)))
    for (name, nq, nt, depth) in plan["sim"]:
        files, c, r = cachelib.simulate(ctx, CONFIGS[name], ctx.pick(nq, nt), depth, name="sim-" + name)
        out = os.path.join(ctx.scratch, "beh-%s.jsonl" % name)
        n, nsteps = cachelib.behaviours_to_jsonl(files, out, c)
        groups.append((name, c, out, n))
        st = vlib.parse_behaviour_file(files[0], want_states=False)
        samples.append({"config": name, "behaviour": ["%s(%s)" % (s["action"], ",".join(str(a) for a in s["args"])) for s in st[1:]]})
    total = {"behaviours": 0, "realised": 0, "unrealised": 0, "attempts": 0, "steps": 0, "drift": 0, "traces": 0, "events": 0, "leaks": 0}
    drift_first = []
    combined = os.path.join(ctx.scratch, "all-traces.ndjson")
    with open(combined, "w") as allf:
        for (name, c, path, n) in groups:
            # a lead is one behaviour aimed at a corner: it is worth many attempts (each lost `select` costs milliseconds)
            trace, summ, d = cachelib.replay(ctx, path, c, name="replay-" + name,
                                             attempts=400 if name.endswith("-leads") else 24)
            for k in total:
                total[k] += summ.get(k, 0)
            drift_first += [name + ": " + x for x in (summ.get("driftFirst") or [])][:3]
            with open(trace) as f:
                for ln in f:
                    if '"ev":"New"' in ln:     # remember which configuration a trace came from
                        ln = ln.rstrip("\n")[:-1] + ',"config":"%s"}\n' % name
                    allf.write(ln)
        if plan.get("keytypes"):
            ktrace, ksumm = cachelib.keytypes_run(ctx, race=ctx.tier == "thorough")
            total["traces"] += ksumm["traces"]
            total["events"] += ksumm["events"]
            with open(ktrace) as f:
                for ln in f:
                    if '"ev":"New"' in ln:
                        ln = ln.rstrip("\n")[:-1] + ',"config":"keytypes"}\n'
                    allf.write(ln)
        ring_info = None
        if plan.get("ring"):
            # the Get-frequency pipeline (ring stripes -> itemsCh -> policy goroutine) has its own design spec
            rst, rtr, rtrace, rsumm = cachelib.ring_phase(ctx, ctx.pick(300, 4000), race=plan.get("race", ctx.tier == "thorough"))
            states += rst
            trans += rtr
            for k in ("traces", "events", "drift", "steps"):
                total[k] += rsumm.get(k, 0)
            drift_first += ["ring: " + x for x in (rsumm.get("driftFirst") or [])][:2]
            ring_info = {"design_states": rst, "behaviours": rsumm.get("behaviours"), "steps": rsumm.get("steps"), "drift": rsumm.get("drift")}
            with open(rtrace) as f:
                for ln in f:
                    if '"ev":"New"' in ln:
                        ln = ln.rstrip("\n")[:-1] + ',"config":"ring"}\n'
                    allf.write(ln)
        # free-running concurrent executions (not derived from the model), judged by the same observers
        fr = plan.get("free", (1, 6))
        rounds = ctx.pick(fr[0], fr[1])
        trace, fsumm, out = cachelib.free_run(ctx, cachelib.free_scenarios(ctx.tier), rounds=rounds, race=plan.get("race", ctx.tier == "thorough"),
                                              timeout=ctx.pick(900, 3000))
        with open(trace) as f:
            for ln in f:
                if '"ev":"New"' in ln:
                    ln = ln.rstrip("\n")[:-1] + ',"config":"free-running"}\n'
                allf.write(ln)
    total["traces"] += fsumm["traces"]
    total["events"] += fsumm["events"]
    free_info = {"rounds": rounds, "scenarios": [s["name"] for s in cachelib.free_scenarios(ctx.tier)], "traces": fsumm["traces"],
                 "events": fsumm["events"], "race_detector": plan.get("race", ctx.tier == "thorough")}
    bad, r = cachelib.observe(ctx, combined, name="observe", modules=OBSERVERS.get(pid, ("ObsCache",)))
    allbad = []
    for b in bad:
        if b["p"] == pid:
            b["tracefile"] = b.get("chunk", combined)
            b["config"] = trace_config(b["tracefile"], b["at"])
            allbad.append(b)
    ctx.drift = total["drift"]
    for x in drift_first[:5]:
        log("CONFORMANCE-DRIFT property=%s %s" % (pid, x))
    if total["realised"] == 0:
        raise Inconclusive("no behaviour could be realised on the real cache")
    judge(ctx, pid, allbad)
    vlib.write_evidence(ctx, "model_checking", {
        "states": states, "transitions": trans,
        "traces_validated_against_impl": total["traces"],
        "behaviours_replayed": total["realised"], "behaviours_unrealised": total["unrealised"],
        "replay_steps": total["steps"], "events_validated": total["events"],
        "design_counterexamples_replayed": len(leads),
        "model_checking_runs": mcsumm, "liveness_runs": live_summ, "coverage_goals": goal_summ, "ring_pipeline": ring_info, "free_running": free_info,
        "samples": samples[:4],
        "exhaustive": True,
        "rule": "exhaustive TLC on the listed small configurations of Ristretto.tla; TLC -simulate behaviours of the larger "
                "configurations forced step by step on the real cache (gates + synctest), state compared after every step, "
                "every recorded trace judged by the TLA+ observer of this property",
    }, ["TLC results hold for the stated constants; larger scopes are sampled by simulation",
        "schedules are explored at the grain of the verif hook points",
        "victim choice among equal estimates and sweep order depend on Go map iteration and are matched by retrying",
        "TinyLFU estimates are exact only while sketch/bloom collisions do not occur (checked white-box: a mismatch is reported as drift)"])


def judge(ctx, pid, bad):
    """Turn observer rejections into violations / known findings."""
    known = {k["signature"]: k for k in vlib.open_findings(pid)}
    seen_known = set()
    classes = {}
    for b in bad:
        classes.setdefault((b["why"], b.get("sig", "")), []).append(b)
    for (why, sig), lst in sorted(classes.items()):
        first = sorted(lst, key=lambda b: (b["trace"], b["at"]))[0]
        if sig and sig in known:
            if sig not in seen_known:
                seen_known.add(sig)
                k = known[sig]
                ctx.known.append({"finding": k["id"], "what": "%s: %s [%d traces, e.g. config %s trace %s]" %
                                  (k["id"], k["what"], len({b["trace"] for b in lst}), first["config"], first["trace"])})
            continue
        rp = extract_trace(ctx, first["tracefile"], first["trace"], pid, at=first["at"])
        ctx.violations.append({"what": "%s (config %s, trace %s, event %s; %d rejected traces)" %
                               (why, first["config"], first["trace"], first["at"], len({b["trace"] for b in lst})), "replay": rp})


def trace_config(tracefile, at):
    """Configuration name recorded in the New event of the trace that contains line `at`."""
    cfgname = "?"
    with open(tracefile) as f:
        for i, ln in enumerate(f, 1):
            if i > at:
                break
            if '"ev":"New"' in ln:
                try:
                    cfgname = json.loads(ln).get("config", "?")
                except ValueError:
                    pass
    return cfgname


def extract_trace(ctx, tracefile, tid, pid, at=None):
    """Save the segment of one trace (from its New event to the next) as the replay artefact."""
    out = []
    start = 0
    lines = open(tracefile).read().split("\n")
    if at is not None:       # the trace that contains line `at` (trace ids repeat across configurations)
        start = min(at, len(lines)) - 1
        while start > 0 and '"ev":"New"' not in lines[start]:
            start -= 1
        for ln in lines[start:]:
            if out and '"ev":"New"' in ln:
                break
            out.append(ln + "\n")
    else:
        on = False
        for ln in lines:
            if '"ev":"New"' in ln:
                on = ('"t":%d}' % tid in ln) or ('"t":%d,' % tid in ln)
            if on:
                out.append(ln + "\n")
    return vlib.save_replay_text(ctx, "".join(out), "trace%d" % tid, ".ndjson")


def replay_only(ctx, pid, path):
    bad, r = cachelib.observe(ctx, path)
    mine = [dict(b, config="replay", tracefile=path) for b in bad if b["p"] == pid]
    judge(ctx, pid, mine)
    log("replayed %s: %d rejected events for %s" % (path, len(mine), pid))
