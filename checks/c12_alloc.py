"""C12 - z.Allocator hands out disjoint, stable, exactly sized memory, also concurrently.

1. TLC model-checks the design spec spec/z/Allocator.tla exhaustively (2 threads x 2 requests x sizes
   {1, c-1, c, c+1, 2c+1}; Reset / TrimTo / replay histories; 3 threads and more in the thorough tier;
   liveness "every call returns" on a tiny configuration).  The TrimTo configuration is run with the
   code as it is (finding F7: expected to violate NoSpin, a lead) and with the modelled repair.
2. `tlc -simulate` writes behaviours of the same spec with the constants of the real allocator
   (first chunk 4 / 100 bytes built white-box, 512 bytes through NewAllocator); the gate scheduler of
   harness/z/alloc_test.go.txt forces every behaviour on the real z.Allocator through the hook points
   of z/allocator.go (build tag verif).  Free-running goroutines (1..32, seeded size mixes around the
   chunk boundaries, Reset / replay / TrimTo histories) are recorded as well, also under -race.
3. Every recorded NDJSON trace is validated by TLC against spec/z/TraceAllocator.tla: `bad` = C12 as
   stated (exit 1 unless it matches an open known finding), `drift` = white-box log vs design model.
"""
import concurrent.futures as cf
import json
import os
import random
import shutil

import vlib
from vlib import Inconclusive, log

FILES = ["z/Allocator.tla", "z/MC_Allocator.cfg", "z/MC_Allocator_replay.cfg", "z/MC_Allocator_trim.cfg",
         "z/MC_Allocator_live.cfg", "z/MC_Allocator_3t.cfg", "z/MC_Allocator_3tb.cfg", "z/MC_Allocator_2t3.cfg", "z/MC_Allocator_2tr.cfg", "z/MC_Allocator_replay_t.cfg",
         "z/MC_Allocator_aligned.cfg"]
TFILES = ["z/TraceAllocator.tla", "z/TraceAllocator.cfg"]
OVERLAYS = {
    "z/verif_trace_test.go": ("common/vtrace_test.go.txt", "z"),
    "z/verif_alloc_test.go": "z/alloc_test.go.txt",
}
FINDING = "F7"

SIM_CFG = """SPECIFICATION Spec
CONSTANTS
  Threads = {%(threads)s}
  Sizes = {%(sizes)s}
  Kinds = {%(kinds)s}
  C0 = %(c0)d
  MaxAlloc = 1073741824
  MaxChunks = 48
  NReq = %(nreq)d
  MaxResets = %(resets)d
  TrimMaxes = {%(trims)s}
  MaxTrims = %(maxtrims)d
  PosBase = 1048576
  AlignM1 = 7
  BaseMods = {0}
  FixTrimKeepFirst = %(fix)s
  TrackReplay = FALSE
"""


def _tla_bool(b):
    return "TRUE" if b else "FALSE"


def _cfg_with(path, repl):
    s = open(os.path.join(vlib.SPEC, path)).read()
    for a, b in repl.items():
        if a not in s:
            raise Inconclusive("cfg %s has no %r" % (path, a))
        s = s.replace(a, b)
    return s


def _sim_cfg(c0, threads, nreq, resets, trims, maxtrims, fix, kinds=('"plain"', '"aligned"')):
    return SIM_CFG % {
        "threads": ", ".join("t%d" % i for i in range(1, threads + 1)),
        "sizes": ", ".join(str(x) for x in sorted({1, c0 - 1, c0, c0 + 1, 2 * c0 + 1})),
        "kinds": ", ".join(kinds), "c0": c0, "nreq": nreq, "resets": resets,
        "trims": ", ".join(str(t) for t in trims), "maxtrims": maxtrims, "fix": _tla_bool(fix)}


def _scenario(path, c0, wb, threads, rng, tag):
    """One `-simulate file=` behaviour -> steps for the gate scheduler; also tells whether the model
    ends with a thread spinning (F7 lead)."""
    steps = vlib.parse_behaviour_file(path, want_states=True)
    out = []
    kinds = {}
    spin = False
    for st in steps:
        a, args = st["action"], st["args"]
        if a == "Init":
            continue
        if a == "Start":
            t = int(args[0][1:])
            k = args[1]
            if k == "plain" and rng.random() < 0.25:
                k = "copy"          # Copy = Allocate + copy: the same model action
            out.append({"a": "Start", "t": t, "k": k, "sz": args[2]})
        elif a in ("Add", "Return", "Lock", "Decide"):
            out.append({"a": a, "t": int(args[0][1:])})
        elif a == "Reset":
            out.append({"a": "Reset"})
        elif a == "Trim":
            out.append({"a": "Trim", "max": args[0]})
        else:
            raise Inconclusive("unknown action %s in behaviour %s" % (a, path))
        pc = st.get("state", {}).get("pc", {})
        if isinstance(pc, dict) and "spin" in pc.values() and not spin:
            spin = True
            out[-1]["spin"] = True      # the model's Decide ends in the endless doubling loop
    return {"c0": c0, "wb": wb, "threads": threads, "steps": out, "tag": tag}, spin


def _opened(pid):
    """Open known findings of this property (driven by the status in known_findings.json).
    VERIF_ASSUME_FIXED=F7 is an experiment knob: behave as if the entry's status were "fixed"
    (used to vet /verif/fixes/F7.patch in a scratch worktree before the entry is flipped)."""
    assume = os.environ.get("VERIF_ASSUME_FIXED", "").split(",")
    return [k for k in vlib.open_findings(pid) if k.get("id") == FINDING and k["id"] not in assume]



POOL_FILES = ["z/Pool.tla", "z/MC_Pool.cfg", "z/SIM_Pool.cfg", "z/TracePool.tla", "z/TracePool.cfg"]


def pool_stage(ctx, pid):
    """Beyond the listed property: z.AllocatorPool (the way allocators are recycled: Return = TrimTo + park, Get =
    take + Reset).  Pool.tla is model-checked (safety + liveness), its behaviours and seeded random histories are
    driven through the real pool on a fake clock and TracePool.tla compares every step with the design model.
    Everything it finds is conformance drift (reported, never a verdict)."""
    cfg = open(os.path.join(vlib.SPEC, "z/MC_Pool.cfg")).read()
    if not ctx.quick():
        cfg = cfg.replace("Clients = {1, 2}", "Clients = {1, 2, 3}").replace("MaxIds = 4", "MaxIds = 5").replace("MaxOps = 7", "MaxOps = 8")
    mc = vlib.tlc(ctx, POOL_FILES, "Pool", cfg, name="pool-mc", workers=4, timeout=1200)
    if not mc.ok:
        log("CONFORMANCE-DRIFT property=%s design spec Pool.tla did not pass TLC: %s" % (pid, mc.violated or mc.error))
        ctx.drift += 1
        return None
    sim = vlib.tlc(ctx, POOL_FILES, "Pool", "SIM_Pool.cfg", name="pool-sim", workers=1, timeout=600,
                   simulate={"num": ctx.pick(150, 2000), "depth": 45, "file": "beh"}, seed=ctx.seed * 17 + 3)
    scen = []
    if sim.ok:
        for fn in vlib.list_behaviour_files(sim.dir, "beh"):
            ops = []
            for st in vlib.parse_behaviour_file(fn, want_states=False):
                a, args = st["action"], st["args"]
                if a == "Get":
                    ops.append({"op": "Get", "c": args[0]})
                elif a == "Return":
                    ops.append({"op": "Return", "c": args[0], "a": args[1]})
                elif a == "Tick":
                    ops.append({"op": "Tick"})
                elif a == "ReleaseCall":
                    ops.append({"op": "Release"})
            if ops:
                scen.append({"cap": 2, "ops": ops})
    inp = os.path.join(ctx.scratch, "pool_input.json")
    with open(inp, "w") as f:
        json.dump(scen, f)
    rc, out, d = vlib.go_test(ctx, "./z", {
        "z/verif_trace_test.go": ("common/vtrace_test.go.txt", "z"),
        "z/verif_pool_test.go": "z/pool_test.go.txt",
    }, "^TestVerifPool$", env={"VERIF_INPUT": inp, "VERIF_RANDOM": ctx.pick(100, 2000)}, timeout=900, name="go-pool")
    tp = os.path.join(d, "pool.ndjson")
    sp = os.path.join(d, "pool.summary.json")
    if rc != 0 or not os.path.exists(sp):
        log("CONFORMANCE-DRIFT property=%s the pool driver failed (rc=%s): %s" % (pid, rc, out[-600:].replace("\n", " | ")))
        ctx.drift += 1
        return None
    summ = json.load(open(sp))
    vd = ctx.sub("pool-validate")
    shutil.copy(tp, os.path.join(vd, "trace.ndjson"))
    r = vlib.tlc(ctx, POOL_FILES, "TracePool", "TracePool.cfg", workers=1, timeout=900, workdir=vd)
    if not r.ok:
        log("NOTE property=%s pool trace validation did not run: %s" % (pid, r.error or r.violated))
        return None
    _, drift = vlib.obs_result(r.out)
    if drift:
        ctx.drift += len(drift)
        first = sorted(drift, key=lambda b: b["at"])[0]
        log("CONFORMANCE-DRIFT property=%s %s (pool trace %s, line %s); %d event(s)" %
            (pid, first["why"], first["trace"], first["at"], len(drift)))
    return {"pool_states": mc.distinct, "pool_behaviours": len(scen), "pool_traces": summ["traces"],
            "pool_events": summ["events"], "pool_drift": len(drift)}

def run(ctx, pid):
    if os.environ.get("VERIF_REPLAY"):
        return _replay(ctx, pid, os.environ["VERIF_REPLAY"])
    opened = _opened(pid)
    fixed_model = not opened      # the models follow the recorded state of the repair
    pool = cf.ThreadPoolExecutor(max_workers=16)
    # many small JVMs run side by side: keep each one's GC/JIT thread pools small
    os.environ.setdefault("JAVA_TOOL_OPTIONS", "-XX:ParallelGCThreads=2 -XX:CICompilerCount=2")

    def gotest(name, test, env, race=False):
        return pool.submit(vlib.go_test, ctx, "./z", OVERLAYS, "^%s$" % test, env=env, race=race, timeout=1500,
                           name=name)

    # the free-running runs need nothing from TLC: start them (and the compilation) right away
    g_free = gotest("go-free", "TestVerifAllocFree", {"VERIF_RUNS": ctx.pick(30, 800), "VERIF_HANGISH": ctx.pick(2, 4)})
    g_race = gotest("go-race", "TestVerifAllocFree", {"VERIF_RUNS": ctx.pick(10, 250), "VERIF_HANGISH": 0}, race=True)

    # ---- 1. design spec, exhaustive -------------------------------------------------------------
    def mc(cfg, name, workers=4, timeout=900, gen=None):
        d = ctx.sub(name)
        return pool.submit(vlib.tlc, ctx, FILES, "Allocator", gen if gen else cfg, name=name, workers=workers,
                           timeout=timeout, workdir=d)

    trim_asis = _cfg_with("z/MC_Allocator_trim.cfg", {"FixTrimKeepFirst = FALSE": "FixTrimKeepFirst = " + _tla_bool(fixed_model)})
    trim_fix = _cfg_with("z/MC_Allocator_trim.cfg", {"FixTrimKeepFirst = FALSE": "FixTrimKeepFirst = TRUE"})
    jobs = {
        "mc": mc("MC_Allocator.cfg", "mc"),
        "replay": mc("MC_Allocator_replay.cfg", "mc-replay"),
        "trim": mc(None, "mc-trim", gen=trim_asis, workers=2),
        "trimfix": mc(None, "mc-trimfix", gen=trim_fix, workers=2),
        "live": mc("MC_Allocator_live.cfg", "mc-live", workers=2),
    }
    if not ctx.quick():
        jobs["3t"] = mc("MC_Allocator_3t.cfg", "mc-3t", workers=6, timeout=1200)
        jobs["3tb"] = mc("MC_Allocator_3tb.cfg", "mc-3tb", workers=6, timeout=1200)
        jobs["2t3"] = mc("MC_Allocator_2t3.cfg", "mc-2t3", workers=6, timeout=1200)
        jobs["2tr"] = mc("MC_Allocator_2tr.cfg", "mc-2tr", workers=4, timeout=1200)
        jobs["replay_t"] = mc("MC_Allocator_replay_t.cfg", "mc-replay-t", workers=4, timeout=1200)
        jobs["aligned"] = mc("MC_Allocator_aligned.cfg", "mc-aligned", workers=4, timeout=1200)

    # ---- 2a. behaviours for the gate scheduler ---------------------------------------------------
    nsim = ctx.pick(70, 2000)
    nhist = ctx.pick(50, 1000)
    sims = []   # (future, c0, wb, threads, tag)

    def sim(cfg, name, num, depth, c0, wb, threads, seed):
        d = ctx.sub(name)
        f = pool.submit(vlib.tlc, ctx, FILES, "Allocator", cfg, name=name, workers=1, timeout=ctx.pick(900, 2400), workdir=d,
                        simulate={"num": num, "depth": depth, "file": "beh"}, seed=ctx.seed * 31 + seed)
        sims.append((f, c0, wb, threads, name))

    sim(_sim_cfg(4, 3, 3, 1, [5, 13, 29], 1, fixed_model), "sim-wb4", nsim, 150, 4, True, 3, 1)
    sim(_sim_cfg(512, 3, 3, 1, [513, 1537, 3585], 1, fixed_model), "sim-512", nsim, 150, 512, False, 3, 2)
    sim(_sim_cfg(100, 2, 4, 1, [101, 301], 1, fixed_model), "sim-wb100", nsim, 150, 100, True, 2, 3)
    # sequential Reset / TrimTo / replay histories
    sim(_sim_cfg(4, 1, 4, 2, [5, 13, 29], 2, fixed_model), "sim-hist4", nhist, 120, 4, True, 1, 4)
    sim(_sim_cfg(1024, 1, 4, 2, [1025, 3073, 7169], 2, fixed_model), "sim-hist1024", nhist, 120, 1024, False, 1, 5)
    # ... and with TrimTo(max <= first chunk): behaviours in which the model (code as it is) spins
    sim(_sim_cfg(1024, 1, 2, 2, [100, 1024], 1, fixed_model, kinds=('"plain"',)), "sim-f7", ctx.pick(12, 40), 60, 1024, False, 1, 6)

    res = {k: f.result() for k, f in jobs.items()}
    for k, r in res.items():
        if k == "trim" and not fixed_model:
            continue
        if not r.ok:
            raise Inconclusive("design spec Allocator.tla (%s) did not pass TLC: %s" % (k, r.violated or r.error))
    lead = None
    if not fixed_model:
        r = res["trim"]
        if r.violated != "NoSpin":
            raise Inconclusive("MC_Allocator_trim (code as it is) was expected to violate NoSpin (finding %s is open), "
                               "got: %s" % (FINDING, r.violated or r.error or "no violation"))
        lead = "design model of the code as it is violates NoSpin after TrimTo(max <= len(chunk 0)); Reset; Allocate " \
               "(MC_Allocator_trim, %d states); the modelled repair FixTrimKeepFirst passes (%d states)" % (
                   r.distinct, res["trimfix"].distinct)
        ctx.notes.append("lead: " + lead)
        log("LEAD property=%s %s" % (pid, lead))

    rng = random.Random(ctx.seed * 977 + 5)
    scen, leads = [], []
    max_leads = ctx.pick(2, 4)
    for f, c0, wb, threads, tag in sims:
        r = f.result()
        if not r.ok:
            if r.timed_out and vlib.list_behaviour_files(r.dir, "beh"):
                # a loaded machine: the behaviours written so far are used (fewer executions, same judgement)
                ctx.notes.append("simulation %s stopped at its time limit; %d behaviours used" %
                                 (tag, len(vlib.list_behaviour_files(r.dir, "beh"))))
            else:
                raise Inconclusive("simulation %s failed: %s" % (tag, r.error or r.violated))
        for fn in vlib.list_behaviour_files(r.dir, "beh"):
            sc, spin = _scenario(fn, c0, wb, threads, rng, tag)
            if not sc["steps"]:
                continue
            (leads if spin else scen).append(sc)
    # behaviours in which the model itself spins cost a deadline each on the real code: a few, last
    rng.shuffle(leads)
    n_model_leads = len(leads)
    scen += leads[:max_leads]
    inp = os.path.join(ctx.scratch, "alloc_input.json")
    with open(inp, "w") as f:
        json.dump(scen, f)

    # ---- 2b. drive the real allocator ------------------------------------------------------------
    g_replay = gotest("go-replay", "TestVerifAllocReplay", {"VERIF_INPUT": inp})
    traces, summ = [], {}
    for name, fut, base in (("replay", g_replay, "alloc_replay"), ("free", g_free, "alloc_free"), ("race", g_race, "alloc_free")):
        rc, out, d = fut.result()
        tp = os.path.join(d, base + ".ndjson")
        sp = os.path.join(d, base + ".summary.json")
        if not os.path.exists(sp) or not os.path.exists(tp):
            raise Inconclusive("allocator driver %s failed (rc=%s):\n%s" % (name, rc, out[-2500:]))
        s = json.load(open(sp))
        summ[name] = s
        if s.get("crashes"):
            raise Inconclusive("allocator driver %s: %d child process(es) died without a recorded hang:\n%s" %
                               (name, s["crashes"], out[-1500:]))
        if rc != 0 and not s.get("races"):
            raise Inconclusive("allocator driver %s failed (rc=%s):\n%s" % (name, rc, out[-2500:]))
        traces.append((name, tp))
    pool.shutdown()
    rs = summ["replay"]
    if scen and rs["realised"] == 0:
        # the code follows none of the model's schedules: that is conformance drift (reported), not a verdict and
        # not a reason to stop - the traces of the free-running runs and of the abandoned replays are still judged
        ctx.drift += len(scen)
        log("CONFORMANCE-DRIFT property=%s no model behaviour could be realised on the real allocator (%d tried): %s" %
            (pid if "pid" in dir() else "C12", len(scen), (rs.get("why") or [""])[0]))
    if rs["unrealised"]:
        ctx.notes.append("unrealised schedules: %d of %d; first: %s" % (rs["unrealised"], len(scen), (rs.get("why") or [""])[0]))
        log("NOTE property=%s %d of %d model behaviours were not followed by the code (counted, not judged): %s" %
            (pid, rs["unrealised"], len(scen), (rs.get("why") or [""])[0]))
    races = summ["race"].get("races", 0)
    if races:
        ctx.notes.append("race detector: %d report(s) during the free-running runs" % races)
        log("RACE-REPORT property=%s the race detector printed %d report(s) during the free-running runs "
            "(reported, judged only through the recorded regions)" % (pid, races))

    # ---- 3. TLC validates every recorded trace ----------------------------------------------------
    merged = os.path.join(ctx.scratch, "alloc_all.ndjson")
    with open(merged, "w") as f:
        for name, tp in traces:
            with open(tp) as g:
                shutil.copyfileobj(g, f)
    bad, drift, nlines, ntraces = validate(ctx, merged, fixed_model)
    judge(ctx, pid, merged, bad, drift, opened)

    try:
        pool_info = pool_stage(ctx, pid)
    except Exception as e:   # an extra beyond the property: its tool failures never decide C12
        pool_info = None
        log("NOTE property=%s pool stage did not complete: %s" % (pid, str(e)[:400]))
    if pool_info:
        ctx.notes.append("z.AllocatorPool (beyond the property): %s" % json.dumps(pool_info))

    samples = [json.loads(x) for x in open(merged).read(20000).split("\n")[:8] if x.strip().endswith("}")]
    exh = [r for k, r in res.items() if r.ok]
    vlib.write_evidence(ctx, "model_checking", {
        "states": sum(r.distinct for r in exh),
        "transitions": sum(r.generated for r in exh),
        "traces_validated_against_impl": ntraces,
        "events_validated": nlines,
        "model_behaviours_replayed": rs["realised"],
        "model_behaviours_unrealised": rs["unrealised"],
        "model_behaviours_with_spinning_thread": n_model_leads,
        "gate_steps_forced": rs["steps"],
        "calls_recorded": sum(s.get("calls", 0) for s in summ.values()),
        "calls_that_did_not_return": sum(s.get("hung", 0) for s in summ.values()),
        "race_detector_reports": races,
        "design_runs": {k: {"distinct": r.distinct, "generated": r.generated, "wall_s": round(r.wall, 1),
                            "result": "ok" if r.ok else (r.violated or r.error)} for k, r in res.items()},
        "lead": lead,
        "samples": samples,
        "exhaustive": True,
        "rule": "design: every interleaving of 2 threads x 2 Allocate calls x sizes {1,c-1,c,c+1,2c+1} (c = 4), "
                "sequential Reset/TrimTo/replay histories of 2 x 3 calls, liveness on 2 threads x 1 call"
                + ("" if ctx.quick() else ", 3 threads x 2 calls x {1,c,c+1} and x {c,c+1,2c+1}, 2 threads x 3 calls x 5 sizes, 2 threads with Reset, aligned requests") +
                "; real code: simulated behaviours of the same spec with the real constants forced through gates "
                "(first chunk 4/100 white-box, 512/1024 via NewAllocator), seeded free-running runs with 1..32 "
                "goroutines incl. -race; one trace per allocator instance",
    }, ["TLC explores the design exhaustively only for the stated small constants; larger scopes are sampled",
        "the 32-bit offset field never carries into the chunk index (needs > 4 GiB of simultaneous overshoot); "
        "MC_Allocator_carry.cfg shows the model with a small PosBase, the real runs stay far below",
        "Reset and TrimTo are called at quiescent points only; after a TrimTo that freed the chunk the position "
        "points into, the next operation is Reset (AllocatorPool's usage)",
        "'replaying the same requests' is judged for sequential replays in the same order; concurrent replays are "
        "only checked for disjointness, length, stability and contents",
        "byte-level facts (sentinels intact, zeroed, copy equal) are measured by the harness on the executions "
        "chosen by the model / the seeds and enter the trace as booleans",
        "a call is recorded as not returning when it is still inside z.(*Allocator) code after VERIF_HANG_MS "
        "(3 s) in two stack samples"])


def validate(ctx, trace, fixed_model, parts=None):
    """Split the trace at `New` events, validate the parts with parallel TLC runs; returns
    (bad, drift, lines, traces) with `at` mapped back to line numbers of `trace`."""
    lines = [x for x in open(trace).read().split("\n") if x]
    starts = [i for i, x in enumerate(lines) if '"ev":"New"' in x]
    if not starts or starts[0] != 0:
        raise Inconclusive("trace does not start with a New event")
    nparts = parts or max(1, min(vlib.NCPU // 2, len(lines) // 5000 + 1, len(starts)))
    per = len(lines) / float(nparts)
    cuts = [0]
    for s in starts[1:]:
        if s >= per * len(cuts) and len(cuts) < nparts:
            cuts.append(s)
    cuts.append(len(lines))
    cfg = open(os.path.join(vlib.SPEC, "z/TraceAllocator.cfg")).read().replace(
        "FixTrimKeepFirst = FALSE", "FixTrimKeepFirst = " + _tla_bool(fixed_model))
    dirs = []
    for k in range(len(cuts) - 1):
        d = ctx.sub("validate-%d" % k)
        with open(os.path.join(d, "trace.ndjson"), "w") as f:
            f.write("\n".join(lines[cuts[k]:cuts[k + 1]]) + "\n")
        dirs.append(d)
    with cf.ThreadPoolExecutor(max_workers=len(dirs)) as ex:
        futs = [ex.submit(vlib.tlc, ctx, TFILES, "TraceAllocator", cfg, workers=1, timeout=1500, workdir=d) for d in dirs]
        rs = [f.result() for f in futs]
    bad, drift = [], []
    for k, r in enumerate(rs):
        if not r.ok:
            raise Inconclusive("trace validation did not run (part %d): %s\n%s" % (k, r.error or r.violated, r.out[-1500:]))
        if r.distinct != cuts[k + 1] - cuts[k] + 1:
            raise Inconclusive("trace validation consumed %d of %d events (part %d)" % (r.distinct - 1, cuts[k + 1] - cuts[k], k))
        b, dr = vlib.obs_result(r.out)
        for x in b:
            x["at"] += cuts[k]
        for x in dr:
            x["at"] += cuts[k]
        bad += b
        drift += dr
    return bad, drift, len(lines), len(starts)


def _extract(trace, tid):
    out, on = [], False
    for x in open(trace):
        if '"ev":"New"' in x:
            on = json.loads(x).get("t") == tid
        if on:
            out.append(x)
    return "".join(out)


def judge(ctx, pid, trace, bad, drift, opened):
    classes = {}
    for b in sorted(bad, key=lambda b: b["at"]):
        classes.setdefault(b["why"], []).append(b)
    for why, bs in classes.items():
        first = bs[0]
        match = [k for k in opened if k.get("signature") and k["signature"] in why]
        if match:
            ctx.known.append({"finding": match[0]["id"],
                              "what": "%s [%s] %s - %d rejected event(s) in %d trace(s), first: trace %s line %s" %
                                      (match[0]["id"], match[0]["status"], match[0]["what"], len(bs),
                                       len({b["trace"] for b in bs}), first["trace"], first["at"])})
            continue
        rp = vlib.save_replay_text(ctx, _extract(trace, first["trace"]), "trace-%d" % (len(ctx.violations) + 1), ".ndjson")
        ctx.violations.append({"what": "%s (trace %s, line %s); %d rejected event(s) in %d trace(s)" %
                                       (why, first["trace"], first["at"], len(bs), len({b["trace"] for b in bs})),
                               "replay": rp})
    if drift:
        ctx.drift = len(drift)
        dc = {}
        for d in sorted(drift, key=lambda b: b["at"]):
            dc.setdefault(d["why"], []).append(d)
        for why, ds in dc.items():
            log("CONFORMANCE-DRIFT property=%s %s (trace %s, line %s); %d event(s)" %
                (pid, why, ds[0]["trace"], ds[0]["at"], len(ds)))


def _replay(ctx, pid, path):
    """./bin/check C12 --replay <trace.ndjson>: judge a saved trace again."""
    if not os.path.exists(path):
        raise Inconclusive("no such replay file: %s" % path)
    opened = _opened(pid)
    bad, drift, nlines, ntraces = validate(ctx, path, not opened)
    judge(ctx, pid, path, bad, drift, opened)
    log("REPLAY property=%s %s: %d events, %d trace(s), %d rejected, %d drift" % (pid, path, nlines, ntraces, len(bad), len(drift)))
