"""Registry fragment: z.Tree (C10, C16)."""

_TECH = ("TLA+ design spec model-checked with TLC; TLC counterexamples and TLC-generated behaviours replayed on the "
         "Go code; recorded NDJSON traces validated by TLC against a TLA+ trace specification")

CHECKS = {
    "C10": {
        "module": "c10_tree",
        "engine": "tlc-tree",
        "category": "model_checking",
        "text": "TLC checks the page-level design spec spec/z/TreePages.tla (node search/set/split/compact, newNode, "
                "free list, buffer growth; 4 keys per node) exhaustively for small constants as a refinement of the "
                "abstract map spec/z/TreeMap.tla (Get, exact DeleteBelow, IterateKV exactly once, Reset), toggles = the "
                "state of /repo's code (spec/z/tree_toggles.json). Counterexamples, simulated behaviours and seeded "
                "online histories (sequential, random, clustered at node boundaries; thresholds from the value set; "
                "ids embedded into uint64 incl. 1, 2^63+-1, 2^64-3, 2^64-2) are executed on the real z.Tree for page "
                "sizes 80/96/128/256/4096; after every operation Get of every key id, IterateKV and Stats are "
                "recorded and TLC validates the trace against spec/z/TraceTree.tla (observer = abstract map; page "
                "structure compared with the model). Buffer growth: TLC searches spec/z/TreeGoals.tla for behaviours in which the backing buffer is reallocated below the root, in the first and in the second page of a root split (scaled minSize chosen by TLC) and replays them on real trees built with that minSize; half of the simulated behaviours and a third of the small-page seeded histories also run scaled; a bulk family (10^5 keys, compact checkpoints: every key's Get compared with its known value, IterateKV classified, Stats) grows memory- and file-backed trees several times for seeded page sizes and runs the (page size, order, backing) combinations for which a count-level planner predicts a root split coinciding with a reallocation.",
        "design_ref": "DESIGN.md section 6 (C10), 4.4, Appendix A.2",
        "note": "Design explored exhaustively only for MK = 4 and <= 7 operations over 7 key ids (quick) / 10 operations over 8 key ids and 7 operations over 6 key ids with three value ids (thorough), beyond that by TLC simulation with the invariants on; real-code "
                "verdicts cover the key ids of each trace's universe (<= 600 ids, 40000 in fill runs), not all 2^64 keys. "
                "Scaled trees replace the constant minSize inside copies of the three constructors/Reset (harness); bulk verdicts rest on the harness's key-by-key comparison (monitor). Known finding F10 (fault in a root split that remaps the file) is reported as KNOWN-FINDING while open.",
        "technique": _TECH,
    },
    "C16": {
        "module": "c10_tree",
        "engine": "tlc-tree",
        "category": "model_checking",
        "text": "Same machinery as C10 on file-backed trees: TreePages.tla with Persistent = TRUE (reinit transcribed "
                "with its loop bound over len/cap of the mapped file; invariants ReopenNoPanic, ReopenSame, NoLeak, "
                "MapRefinement after reopen) checked exhaustively; real code: NewTreePersistent on a temp file, "
                "Close + reopen at many positions of model and seeded histories and on files filled exactly to their "
                "last page (all five page sizes in the thorough tier); the observer requires the same mapping, the "
                "same statistics except Allocated, no panic, reuse of recycled pages and map correctness afterwards. Buffer/file growth: goals 'extended again after reopening a file that had been extended twice' and 'root split reallocating after a reopen' of spec/z/TreeGoals.tla are found by TLC and replayed on scaled file-backed trees; bulk file-backed trees (always 4 KiB pages plus seeded sizes) are extended twice, reopened, extended again, reopened, compacted, reopened, refilled.",
        "design_ref": "DESIGN.md section 6 (C16), 4.4, Appendix A.2",
        "note": "Clean close only. minSize (1 MiB) is a Go constant: file-fullness is reached by filling. Known "
                "finding F10 is reported as KNOWN-FINDING while open.",
        "technique": _TECH,
    },
}
