------------------------------- MODULE ObsRef -------------------------------
(* GENERATED from ObsRef.tla.in by bin/expand_frames - edit the template, not this file

   Reference-map observer (C06, and the "TTL alone never hides an item" / GetTTL clauses of C07).

   For single-client histories whose total cost fits in MaxCost (flag `ref` of the New event) every
   observable result must equal that of a reference map with an explicit FIFO of pending writes:

     A    key -> <<value, expiration>>     what Get can see
     acc  set of keys the capacity accounting knows (a pending insert of an accounted key is dropped)
     p    FIFO of pending writes: new(k,v,exp) | upd | del(k)

   The lag of the applier (how many pending writes have been applied between two calls) and the
   moment at which the expiry sweep removes an expired entry are not observable, so the fold keeps the
   SET of reference states that are still possible (`poss`); a call result that no possible state
   explains is a violation.  Wait() must leave the FIFO empty.

   Deterministic: one step per trace line.                                                       *)
\* (l is advanced by Next for every event)
\* FRAME-EXCLUDE: l
EXTENDS Integers, Sequences, FiniteSets, TLC, Json

Trace == ndJsonDeserialize("trace.ndjson")

VARIABLES l, tid, on, poss, cur, bad

vars == <<l, tid, on, poss, cur, bad>>

Flag(p, cond, why) == IF cond THEN {} ELSE {[p |-> p, at |-> l, trace |-> tid, why |-> why, sig |-> ""]}
Put(f, x, v) == [y \in DOMAIN f \cup {x} |-> IF y = x THEN v ELSE f[y]]
Remove(f, x) == [y \in DOMAIN f \ {x} |-> f[y]]
EmptyState == [a |-> <<>>, acc |-> {}, p |-> <<>>]

Init == l = 1 /\ tid = 0 /\ on = FALSE /\ poss = {EmptyState} /\ cur = [ev |-> "none"] /\ bad = {}

\* ---- internal steps of the reference ----
ApplyHead(s) ==
  LET it == Head(s.p) IN
  CASE it.t = "new" -> IF it.k \in s.acc THEN [s EXCEPT !.p = Tail(@)]
                       ELSE [a |-> Put(s.a, it.k, <<it.v, it.exp>>), acc |-> s.acc \cup {it.k}, p |-> Tail(s.p)]
    [] it.t = "upd" -> [s EXCEPT !.p = Tail(@)]
    [] it.t = "del" -> [a |-> IF it.k \in DOMAIN s.a THEN Remove(s.a, it.k) ELSE s.a, acc |-> s.acc \ {it.k}, p |-> Tail(s.p)]

Expired(s, k, t) == k \in DOMAIN s.a /\ s.a[k][2] # 0 /\ t > s.a[k][2]
\* the sweep may remove an entry AT its expiration instant (DelExpired keeps only entries that expire after now), while
\* Get hides it only after that instant: at the instant itself both answers are possible
Sweepable(s, k, t) == k \in DOMAIN s.a /\ s.a[k][2] # 0 /\ t >= s.a[k][2]
SweepOne(s, t) == {[a |-> Remove(s.a, k), acc |-> s.acc \ {k}, p |-> s.p] : k \in {x \in DOMAIN s.a : Sweepable(s, x, t)}}

Succ(s, t) == (IF s.p # <<>> THEN {ApplyHead(s)} ELSE {}) \cup SweepOne(s, t)

RECURSIVE Closure(_, _, _)
Closure(done, frontier, t) ==
  IF frontier = {} THEN done
  ELSE LET nxt == (UNION {Succ(s, t) : s \in frontier}) \ (done \cup frontier)
       IN Closure(done \cup frontier, nxt, t)
Close(S, t) == Closure({}, S, t)

RECURSIVE Drain(_)
Drain(s) == IF s.p = <<>> THEN s ELSE Drain(ApplyHead(s))

Visible(s, k, t) == IF k \in DOMAIN s.a /\ ~Expired(s, k, t) THEN s.a[k][1] ELSE 0

\* ---- events ----
Step(e) ==
  CASE e.ev = "New" ->
         /\ tid' = e.t /\ on' = e.ref /\ poss' = {EmptyState} /\ cur' = [ev |-> "none"]
         /\ UNCHANGED <<bad>>
    [] ~on -> UNCHANGED <<tid, on, poss, cur, bad>>
    [] e.ev \in {"SetBegin", "DelBegin", "GetBegin", "TTLBegin", "WaitBegin", "ClearBegin", "CloseBegin", "IterBegin"} ->
         /\ cur' = e
         /\ UNCHANGED <<tid, on, poss, bad>>
    [] e.ev = "SetEnd" ->
         LET b == cur
             exp == IF b.ttl = 0 THEN 0 ELSE b.t + b.ttl
             S == Close(poss, b.t)
             nxt == {IF b.k \in DOMAIN s.a
                       THEN [s EXCEPT !.a = Put(s.a, b.k, <<b.v, exp>>), !.p = Append(@, [t |-> "upd", k |-> b.k, v |-> b.v, exp |-> exp])]
                     ELSE IF e.ok THEN [s EXCEPT !.p = Append(@, [t |-> "new", k |-> b.k, v |-> b.v, exp |-> exp])]
                     ELSE s
                     : s \in {x \in S : (b.ttl < 0 => ~e.ok) /\ (b.k \in DOMAIN x.a => e.ok)}} IN
         /\ poss' = IF b.ttl < 0 THEN S ELSE nxt
         /\ bad' = bad \cup Flag("C06", b.ttl < 0 \/ nxt # {}, "Set on a resident key returned false")
                       \cup Flag("C07", b.ttl >= 0 \/ ~e.ok, "Set with a negative ttl returned true")
         /\ on' = (on /\ (b.ttl < 0 \/ nxt # {}))
         /\ UNCHANGED <<tid, cur>>
    [] e.ev = "DelEnd" ->
         LET S == Close(poss, cur.t) IN
         /\ poss' = {[a |-> IF cur.k \in DOMAIN s.a THEN Remove(s.a, cur.k) ELSE s.a, acc |-> s.acc,
                      p |-> Append(s.p, [t |-> "del", k |-> cur.k, v |-> 0, exp |-> 0])] : s \in S}
         /\ UNCHANGED <<tid, on, cur, bad>>
    [] e.ev = "WaitEnd" ->
         /\ poss' = {Drain(s) : s \in Close(poss, e.t)}
         /\ UNCHANGED <<tid, on, cur, bad>>
    [] e.ev = "GetEnd" ->
         LET S == Close(poss, cur.t)
             want == IF e.found THEN e.v ELSE 0
             ok == {s \in S : Visible(s, e.k, cur.t) = want}
             hidden == ~e.found /\ \A s \in S : Visible(s, e.k, cur.t) # 0
         IN
         /\ poss' = IF ok = {} THEN S ELSE ok
         /\ on' = (on /\ ok # {})
         /\ bad' = bad \cup Flag("C06", ok # {} \/ hidden,
                                 "Get result is not explained by the reference map for any lag of the applier")
                       \cup Flag("C06", ~hidden, "Get missed an entry that is resident, applied and not expired")
                       \cup Flag("C07", ~hidden \/ \E s \in S : s.a[e.k][2] = 0,
                                 "an item with a TTL was hidden before its expiration instant")
         /\ UNCHANGED <<tid, cur>>
    [] e.ev = "TTLEnd" ->
         LET S == Close(poss, cur.t)
             ok == {s \in S : IF Visible(s, e.k, cur.t) = 0 THEN ~e.found
                              ELSE e.found /\ e.ms = (IF s.a[e.k][2] = 0 THEN 0 ELSE (s.a[e.k][2] - cur.t) * 1000)}
         IN
         /\ poss' = IF ok = {} THEN S ELSE ok
         /\ bad' = bad \cup Flag("C07", ok # {}, "GetTTL result differs from the remaining time of the reference entry")
         /\ UNCHANGED <<tid, on, cur>>
    [] e.ev \in {"ClearEnd", "CloseEnd"} ->
         /\ poss' = {EmptyState}
         /\ on' = (on /\ e.ev = "ClearEnd")
         /\ UNCHANGED <<tid, cur, bad>>
    [] OTHER -> UNCHANGED <<tid, on, poss, cur, bad>>

Next == /\ l <= Len(Trace)
        /\ l' = l + 1
        /\ Step(Trace[l])

Spec == Init /\ [][Next]_vars

Report == (l = Len(Trace) + 1) => PrintT(<<"OBS-RESULT", bad>>)
=============================================================================
