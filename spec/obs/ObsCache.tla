------------------------------ MODULE ObsCache ------------------------------
(* GENERATED from ObsCache.tla.in by bin/expand_frames - edit the template, not this file

   Property observers for the cache (C01-C09, C13-C15, C17) as one deterministic fold over an
   NDJSON trace recorded from the REAL cache (trace.ndjson).

   Interface level: the fold reads only public calls, their replies, the user callbacks and
   snapshots taken at quiescent points.  Every rule uses only orderings that are facts of the
   recording: an event that precedes another in the file happened before it (all events are
   appended under one mutex; a call's Begin event is written before the call, its End event after
   the return, a callback event inside the callback).

   Verdicts: `bad` is a set of records [p |-> property id, at |-> line, trace |-> id, why |-> text].
   Values are unique non-zero integers; zero-value callbacks are not recorded by the harness.

   Trace-level flags in the New event:
     ample    - the history cannot evict or reject for capacity (total cost fits in MaxCost)
     ref      - single client, ample: results are also judged against the reference map (C06/C07)
     coll     - some live keys may collide on the primary hash (C13/C17 clauses are skipped)
     cb       - the user callbacks are configured (without them the callback rules have nothing to read)
*)
\* (l and lastEv are advanced by Next for every event)
\* FRAME-EXCLUDE: l, lastEv
EXTENDS Integers, Sequences, FiniteSets, TLC, Json

Trace == ndJsonDeserialize("trace.ndjson")

VARIABLES
  l, tid, cfg, bad,
  vkey, vcost, vttl, vtb,     \* per value: key, cost, ttl, time of SetBegin     (functions on values seen)
  vte,                        \* per value: time of SetEnd (-1 while the Set is running)
  accepted, refused,          \* values whose Set returned true / false
  exitN, evictN, rejectN,     \* per value callback counts
  exitedAt,                   \* set of exited values
  pendCb,                     \* goroutine -> value whose Evict/Reject still awaits its Exit
  getSnap,                    \* client -> [exited, dead, t] snapshot at GetBegin
  ended,                      \* key -> values whose Set of that key has returned
  delBefore,                  \* client -> [k, vals] snapshot at DelBegin
  cand,                       \* key -> values that a completed Del must have removed
  waitCov,                    \* client -> cand at WaitBegin
  dead,                       \* key -> values that may never be served again (C05)
  owed,                       \* client -> values owed an exit by its running Clear/Close
  inClear,                    \* number of Clear/Close calls in progress
  clearEver,                  \* a Clear/Close overlapped other calls (metric counts ambiguous)
  closed,                     \* Close has returned
  openCalls,                  \* number of client calls in progress
  getsN, dropsN,              \* Gets / refused new Sets since creation or the last Clear
  getsAll,                    \* Gets since creation
  raised,                     \* C03: a later Set of a key carried a higher cost / MaxCost lowered
  maxMax,                     \* largest MaxCost seen
  keysSeen,                   \* keys written or deleted so far
  begunN, runN,               \* key -> number of Sets and Dels begun so far / in progress
  exitDue,                    \* key -> {<<value, begunN at DelBegin>>}: values a completed Del obliges to have exited
  settled,                    \* values that had exited by the last quiescent snapshot (no longer accounted for sure)
  iterSnap,                   \* client -> time of its IterBegin
  pendRej,                    \* hashes whose rejection by the policy still awaits its OnReject callback
  mcOpen, mcN,                \* UpdateMaxCost calls in progress / begun so far
  clrDirty,                   \* some other call overlapped the Clear/Close in progress
  clrN,                       \* number of Clear/Close begin and end events so far (to detect overlap with a Clear)
  lateAdd,                    \* hashes for which an insert was applied after its own TTL had elapsed (signature of F5)
  lastEv,                     \* name of the previous event
  polCur                      \* C09: the policy decision being recorded

vars == <<l, tid, cfg, bad, vkey, vcost, vttl, vtb, vte, accepted, refused, exitN, evictN, rejectN,
          exitedAt, pendCb, getSnap, ended, delBefore, cand, waitCov, dead, owed, inClear, clearEver,
          closed, openCalls, getsN, dropsN, getsAll, raised, maxMax, keysSeen, begunN, runN, exitDue, settled, iterSnap, pendRej, mcOpen, mcN, clrDirty, clrN, lateAdd, lastEv, polCur>>

Empty == <<>>                                  \* the empty function
Get0(f, x) == IF x \in DOMAIN f THEN f[x] ELSE 0
GetS(f, x) == IF x \in DOMAIN f THEN f[x] ELSE {}
Put(f, x, v) == [y \in DOMAIN f \cup {x} |-> IF y = x THEN v ELSE f[y]]
ToSet(s) == {s[i] : i \in DOMAIN s}
FlagS(p, cond, why, sig) == IF cond THEN {} ELSE {[p |-> p, at |-> l, trace |-> tid, why |-> why, sig |-> sig]}
Flag(p, cond, why) == FlagS(p, cond, why, "")
NoPol == [h |-> 0, mc |-> -1, max |-> 0, rounds |-> 0]
DefaultCfg == [ample |-> FALSE, ref |-> FALSE, coll |-> FALSE, maxCost |-> 0, itemSize |-> 0,
               costFn |-> 0, hashOf |-> <<>>, confOf |-> <<>>, metrics |-> FALSE, cb |-> TRUE]

Init ==
  /\ l = 1 /\ tid = 0 /\ cfg = DefaultCfg /\ bad = {}
  /\ vkey = Empty /\ vcost = Empty /\ vttl = Empty /\ vtb = Empty /\ vte = Empty
  /\ accepted = {} /\ refused = {} /\ exitN = Empty /\ evictN = Empty /\ rejectN = Empty
  /\ exitedAt = {} /\ pendCb = Empty /\ getSnap = Empty /\ ended = Empty /\ delBefore = Empty
  /\ cand = Empty /\ waitCov = Empty /\ dead = Empty /\ owed = Empty /\ inClear = 0
  /\ clearEver = FALSE /\ closed = FALSE /\ openCalls = 0 /\ getsN = 0 /\ dropsN = 0 /\ getsAll = 0
  /\ raised = FALSE /\ maxMax = 0 /\ keysSeen = {} /\ begunN = Empty /\ runN = Empty /\ exitDue = Empty /\ settled = {} /\ iterSnap = Empty /\ pendRej = {} /\ mcOpen = 0 /\ mcN = 0 /\ clrDirty = FALSE /\ clrN = 0 /\ lateAdd = {} /\ lastEv = "none" /\ polCur = NoPol

\* effective cost of a value as the policy sees it
EffC(cost) == IF cost = 0 /\ cfg.costFn # 0 THEN cfg.costFn ELSE cost
EffCost(v) == EffC(vcost[v]) + cfg.itemSize
RECURSIVE SumCost(_)
SumCost(S) == IF S = {} THEN 0 ELSE LET v == CHOOSE x \in S : TRUE IN EffCost(v) + SumCost(S \ {v})
HashOfK(k) == cfg.hashOf[k]
ConfOfK(k) == cfg.confOf[k]

Reset(e) ==
  /\ tid' = e.t
  /\ cfg' = [ample |-> e.ample, ref |-> e.ref, coll |-> e.coll, maxCost |-> e.maxCost, itemSize |-> e.itemSize,
             costFn |-> e.costFn, hashOf |-> e.hashOf, confOf |-> e.confOf, metrics |-> e.metrics, cb |-> e.cb]
  /\ vkey' = Empty /\ vcost' = Empty /\ vttl' = Empty /\ vtb' = Empty /\ vte' = Empty
  /\ accepted' = {} /\ refused' = {} /\ exitN' = Empty /\ evictN' = Empty /\ rejectN' = Empty
  /\ exitedAt' = {} /\ pendCb' = Empty /\ getSnap' = Empty /\ ended' = Empty /\ delBefore' = Empty
  /\ cand' = Empty /\ waitCov' = Empty /\ dead' = Empty /\ owed' = Empty /\ inClear' = 0
  /\ clearEver' = FALSE /\ closed' = FALSE /\ openCalls' = 0 /\ getsN' = 0 /\ dropsN' = 0 /\ getsAll' = 0
  /\ raised' = FALSE /\ maxMax' = e.maxCost /\ keysSeen' = {} /\ begunN' = Empty /\ runN' = Empty /\ exitDue' = Empty /\ settled' = {} /\ iterSnap' = Empty /\ pendRej' = {} /\ mcOpen' = 0 /\ mcN' = 0 /\ clrDirty' = FALSE /\ clrN' = 0 /\ lateAdd' = {} /\ polCur' = NoPol
  \* pending callbacks of the previous trace must have been completed
  /\ bad' = bad \cup Flag("C04", \A g \in DOMAIN pendCb : pendCb[g] = 0, "OnEvict/OnReject not followed by OnExit of the same value")

\* ---- values a Get of key k may legitimately return by provenance (C01) ----
ProvOK(k, v) ==
  /\ v \in DOMAIN vkey
  /\ \/ vkey[v] = k
     \/ /\ HashOfK(vkey[v]) = HashOfK(k)
        /\ (ConfOfK(k) = 0 \/ ConfOfK(vkey[v]) = 0 \/ ConfOfK(k) = ConfOfK(vkey[v]))

Step(e) ==
  CASE e.ev = "New" -> Reset(e)

    [] e.ev = "SetBegin" ->
         /\ clrDirty' = (clrDirty \/ inClear > 0)
         /\ vkey' = Put(vkey, e.v, e.k) /\ vcost' = Put(vcost, e.v, e.cost) /\ vttl' = Put(vttl, e.v, e.ttl)
         /\ vtb' = Put(vtb, e.v, e.t) /\ vte' = Put(vte, e.v, -1) /\ keysSeen' = keysSeen \cup {e.k}
         /\ begunN' = Put(begunN, e.k, Get0(begunN, e.k) + 1) /\ runN' = Put(runN, e.k, Get0(runN, e.k) + 1)
         \* a cost-raising overwrite: an earlier Set of the key carried a lower cost, or a Set of the key that is
         \* still in progress (and may be applied after this one) carries a higher cost
         \* (a value that had exited by the last drained snapshot, or that was removed by eviction/expiry - where the
         \* accounting is dropped before the callback - is certainly not accounted any more)
         /\ raised' = (raised \/ \E u \in DOMAIN vkey : vkey[u] = e.k /\ u \notin settled /\
                                     ~(u \in exitedAt /\ Get0(evictN, u) > 0) /\
                                     (EffC(vcost[u]) < EffC(e.cost) \/ (EffC(vcost[u]) > EffC(e.cost) /\ vte[u] < 0)))
         /\ openCalls' = openCalls + 1
         /\ clearEver' = (clearEver \/ inClear > 0)
         /\ UNCHANGED <<tid, cfg, bad, accepted, refused, exitN, evictN, rejectN, exitedAt, pendCb, getSnap, 
                 ended, delBefore, cand, waitCov, dead, owed, inClear, closed, getsN, dropsN, getsAll, 
                 maxMax, exitDue, settled, iterSnap, pendRej, mcOpen, mcN, clrN, lateAdd, polCur>>

    [] e.ev = "SetEnd" ->
         /\ vte' = Put(vte, e.v, e.t)
         /\ IF e.ok THEN accepted' = accepted \cup {e.v} /\ UNCHANGED refused
                    ELSE refused' = refused \cup {e.v} /\ UNCHANGED accepted
         /\ ended' = Put(ended, e.k, GetS(ended, e.k) \cup {e.v})
         /\ runN' = Put(runN, e.k, Get0(runN, e.k) - 1)
         /\ dropsN' = IF ~e.ok /\ vttl[e.v] >= 0 /\ ~closed THEN dropsN + 1 ELSE dropsN
         /\ openCalls' = openCalls - 1
         /\ bad' = bad \cup Flag("C04", e.ok \/ (Get0(exitN, e.v) = 0 /\ Get0(evictN, e.v) = 0 /\ Get0(rejectN, e.v) = 0),
                                 "a value whose Set returned false was passed to a callback")
                       \cup Flag("C07", vttl[e.v] >= 0 \/ ~e.ok, "Set with a negative ttl returned true")
                       \cup Flag("C15", ~closed \/ ~e.ok, "Set on a closed cache returned true")
         /\ UNCHANGED <<tid, cfg, vkey, vcost, vttl, vtb, exitN, evictN, rejectN, exitedAt, pendCb, getSnap, 
                 delBefore, cand, waitCov, dead, owed, inClear, clearEver, closed, getsN, getsAll, raised, 
                 maxMax, keysSeen, begunN, exitDue, settled, iterSnap, pendRej, mcOpen, mcN, clrDirty, 
                 clrN, lateAdd, polCur>>

    [] e.ev = "DelBegin" ->
         /\ clrDirty' = (clrDirty \/ inClear > 0)
         /\ keysSeen' = keysSeen \cup {e.k}
         /\ begunN' = Put(begunN, e.k, Get0(begunN, e.k) + 1) /\ runN' = Put(runN, e.k, Get0(runN, e.k) + 1)
         /\ delBefore' = Put(delBefore, e.c, [k |-> e.k, vals |-> GetS(ended, e.k), clr |-> clrN, free |-> inClear = 0,
                                               \* the exit obligation exists only if no other Set or Del of the key is in progress (a
                                               \* concurrent overwrite or delete may still owe its OnExit callback) ...
                                               due |-> IF Get0(runN, e.k) = 0 THEN GetS(ended, e.k) ELSE {}, seq |-> Get0(begunN, e.k) + 1])
         /\ openCalls' = openCalls + 1
         /\ clearEver' = (clearEver \/ inClear > 0)
         /\ UNCHANGED <<tid, cfg, bad, vkey, vcost, vttl, vtb, vte, accepted, refused, exitN, evictN, rejectN, 
                 exitedAt, pendCb, getSnap, ended, cand, waitCov, dead, owed, inClear, closed, getsN, 
                 dropsN, getsAll, raised, maxMax, exitDue, settled, iterSnap, pendRej, mcOpen, mcN, clrN, 
                 lateAdd, polCur>>

    [] e.ev = "DelEnd" ->
         \* a Del that overlapped a Clear creates no obligation (Clear is not atomic w.r.t. other calls)
         /\ runN' = Put(runN, e.k, Get0(runN, e.k) - 1)
         /\ cand' = IF closed \/ ~delBefore[e.c].free \/ delBefore[e.c].clr # clrN THEN cand
                    ELSE Put(cand, e.k, GetS(cand, e.k) \cup delBefore[e.c].vals)
         /\ exitDue' = IF closed \/ ~delBefore[e.c].free \/ delBefore[e.c].clr # clrN THEN exitDue
                       ELSE Put(exitDue, e.k, GetS(exitDue, e.k) \cup {<<v, delBefore[e.c].seq>> : v \in delBefore[e.c].due})
         /\ openCalls' = openCalls - 1
         /\ UNCHANGED <<tid, cfg, bad, vkey, vcost, vttl, vtb, vte, accepted, refused, exitN, evictN, rejectN, 
                 exitedAt, pendCb, getSnap, ended, delBefore, waitCov, dead, owed, inClear, clearEver, 
                 closed, getsN, dropsN, getsAll, raised, maxMax, keysSeen, begunN, settled, iterSnap, 
                 pendRej, mcOpen, mcN, clrDirty, clrN, lateAdd, polCur>>

    [] e.ev = "WaitBegin" ->
         /\ clrDirty' = (clrDirty \/ inClear > 0)
         /\ waitCov' = Put(waitCov, e.c, [cand |-> cand, due |-> exitDue, clr |-> clrN, free |-> inClear = 0])
         /\ openCalls' = openCalls + 1
         /\ clearEver' = (clearEver \/ inClear > 0)
         /\ UNCHANGED <<tid, cfg, bad, vkey, vcost, vttl, vtb, vte, accepted, refused, exitN, evictN, rejectN, 
                 exitedAt, pendCb, getSnap, ended, delBefore, cand, dead, owed, inClear, closed, getsN, 
                 dropsN, getsAll, raised, maxMax, keysSeen, begunN, runN, exitDue, settled, iterSnap, 
                 pendRej, mcOpen, mcN, clrN, lateAdd, polCur>>

    [] e.ev = "WaitEnd" ->
         \* a Wait that overlapped a Clear may have been released by Clear's drain: no guarantee then
         LET ok == waitCov[e.c].free /\ waitCov[e.c].clr = clrN /\ ~closed
             cov == IF ok THEN waitCov[e.c].cand ELSE Empty IN
         /\ dead' = [k \in DOMAIN dead \cup DOMAIN cov |-> GetS(dead, k) \cup GetS(cov, k)]
         /\ openCalls' = openCalls - 1
         /\ bad' = bad \cup FlagS("C05", ~cfg.cb \/ ~ok \/
                                   \A k \in DOMAIN waitCov[e.c].due : \A p \in waitCov[e.c].due[k] :
                                      (p[2] = Get0(begunN, k) /\ p[1] \in accepted) => Get0(exitN, p[1]) = 1,
                                 "a value deleted by a completed Del was not released through OnExit by the next Wait",
                                 \* F9: the unreleased values belong to keys that share their primary hash with another key
                                 IF \A k \in DOMAIN waitCov[e.c].due : \A p \in waitCov[e.c].due[k] :
                                      (p[2] = Get0(begunN, k) /\ p[1] \in accepted /\ Get0(exitN, p[1]) # 1)
                                        => \E k2 \in keysSeen : k2 # k /\ HashOfK(k2) = HashOfK(k)
                                   THEN "F9" ELSE "")
         /\ UNCHANGED <<tid, cfg, vkey, vcost, vttl, vtb, vte, accepted, refused, exitN, evictN, rejectN, 
                 exitedAt, pendCb, getSnap, ended, delBefore, cand, waitCov, owed, inClear, clearEver, 
                 closed, getsN, dropsN, getsAll, raised, maxMax, keysSeen, begunN, runN, exitDue, settled, 
                 iterSnap, pendRej, mcOpen, mcN, clrDirty, clrN, lateAdd, polCur>>

    [] e.ev = "GetBegin" ->
         /\ clrDirty' = (clrDirty \/ inClear > 0)
         /\ getSnap' = Put(getSnap, e.c, [exited |-> exitedAt, dead |-> GetS(dead, e.k), t |-> e.t])
         /\ openCalls' = openCalls + 1
         /\ clearEver' = (clearEver \/ inClear > 0)
         /\ UNCHANGED <<tid, cfg, bad, vkey, vcost, vttl, vtb, vte, accepted, refused, exitN, evictN, rejectN, 
                 exitedAt, pendCb, ended, delBefore, cand, waitCov, dead, owed, inClear, closed, getsN, 
                 dropsN, getsAll, raised, maxMax, keysSeen, begunN, runN, exitDue, settled, iterSnap, 
                 pendRej, mcOpen, mcN, clrN, lateAdd, polCur>>

    [] e.ev = "GetEnd" ->
         LET s == getSnap[e.c]  v == e.v IN
         /\ getsN' = getsN + 1 /\ getsAll' = getsAll + 1
         /\ openCalls' = openCalls - 1
         /\ bad' = bad
              \cup Flag("C01", ~e.found \/ ProvOK(e.k, v), "Get returned a value that was not written under that key")
              \cup Flag("C02", ~e.found \/ v \notin s.exited, "Get returned a value already passed to OnExit")
              \cup Flag("C04", ~e.found \/ v \notin s.exited, "a value was passed to OnExit while still retrievable")
              \cup Flag("C05", ~e.found \/ v \notin s.dead, "Get returned a value deleted by a completed Del followed by Wait")
              \cup Flag("C07", ~e.found \/ v \notin DOMAIN vttl \/ vttl[v] = 0 \/ vte[v] < 0 \/ s.t <= vte[v] + vttl[v],
                               "Get returned an item after its TTL had elapsed")
              \cup Flag("C07", ~e.found \/ v \notin refused, "Get returned a value whose Set returned false")
              \cup Flag("C03", ~e.found \/ v \notin DOMAIN vcost \/ raised \/ EffCost(v) <= maxMax
                                  \/ \E u \in DOMAIN vkey : u # v /\ vkey[u] = vkey[v],
                               "Get returned a new item whose cost exceeds MaxCost")
              \cup Flag("C15", ~closed \/ ~e.found, "Get on a closed cache returned a value")
         /\ UNCHANGED <<tid, cfg, vkey, vcost, vttl, vtb, vte, accepted, refused, exitN, evictN, rejectN, 
                 exitedAt, pendCb, getSnap, ended, delBefore, cand, waitCov, dead, owed, inClear, 
                 clearEver, closed, dropsN, raised, maxMax, keysSeen, begunN, runN, exitDue, settled, 
                 iterSnap, pendRej, mcOpen, mcN, clrDirty, clrN, lateAdd, polCur>>

    [] e.ev = "TTLBegin" ->
         /\ openCalls' = openCalls + 1
         /\ UNCHANGED <<tid, cfg, bad, vkey, vcost, vttl, vtb, vte, accepted, refused, exitN, evictN, rejectN, 
                 exitedAt, pendCb, getSnap, ended, delBefore, cand, waitCov, dead, owed, inClear, 
                 clearEver, closed, getsN, dropsN, getsAll, raised, maxMax, keysSeen, begunN, runN, 
                 exitDue, settled, iterSnap, pendRej, mcOpen, mcN, clrDirty, clrN, lateAdd, polCur>>

    [] e.ev = "TTLEnd" ->
         /\ openCalls' = openCalls - 1
         \* remaining time never exceeds the largest ttl given for that key so far (unit: e.ms is in 1/1000 tick)
         /\ bad' = bad \cup Flag("C07", ~e.found \/ e.ms = 0 \/
                                   \E v \in DOMAIN vkey : vkey[v] = e.k /\ vttl[v] > 0 /\ e.ms <= vttl[v] * 1000,
                                 "GetTTL reported more remaining time than any ttl given for the key")
         /\ UNCHANGED <<tid, cfg, vkey, vcost, vttl, vtb, vte, accepted, refused, exitN, evictN, rejectN, 
                 exitedAt, pendCb, getSnap, ended, delBefore, cand, waitCov, dead, owed, inClear, 
                 clearEver, closed, getsN, dropsN, getsAll, raised, maxMax, keysSeen, begunN, runN, 
                 exitDue, settled, iterSnap, pendRej, mcOpen, mcN, clrDirty, clrN, lateAdd, polCur>>

    [] e.ev = "IterBegin" ->
         /\ openCalls' = openCalls + 1
         /\ iterSnap' = Put(iterSnap, e.c, e.t)
         /\ UNCHANGED <<tid, cfg, bad, vkey, vcost, vttl, vtb, vte, accepted, refused, exitN, evictN, rejectN, 
                 exitedAt, pendCb, getSnap, ended, delBefore, cand, waitCov, dead, owed, inClear, 
                 clearEver, closed, getsN, dropsN, getsAll, raised, maxMax, keysSeen, begunN, runN, 
                 exitDue, settled, pendRej, mcOpen, mcN, clrDirty, clrN, lateAdd, polCur>>

    [] e.ev = "IterEnd" ->
         /\ openCalls' = openCalls - 1
         /\ bad' = bad \cup Flag("C13", \A i, j \in DOMAIN e.vals : i # j => e.vals[i] # e.vals[j],
                                 "IterValues visited a value twice")
                       \cup Flag("C13", "stopAt" \notin DOMAIN e \/ e.stopAt = 0 \/ Len(e.vals) <= e.stopAt,
                                 "IterValues went on after the callback asked it to stop")
                       \cup Flag("C15", ~closed \/ Len(e.vals) = 0, "IterValues on a closed cache yielded values")
                       \cup Flag("C07", \A i \in DOMAIN e.vals : LET v == e.vals[i] IN
                                     v \notin DOMAIN vttl \/ vttl[v] = 0 \/ vte[v] < 0 \/ iterSnap[e.c] <= vte[v] + vttl[v],
                                 "IterValues yielded an item after its TTL had elapsed")
         /\ UNCHANGED <<tid, cfg, vkey, vcost, vttl, vtb, vte, accepted, refused, exitN, evictN, rejectN, 
                 exitedAt, pendCb, getSnap, ended, delBefore, cand, waitCov, dead, owed, inClear, 
                 clearEver, closed, getsN, dropsN, getsAll, raised, maxMax, keysSeen, begunN, runN, 
                 exitDue, settled, iterSnap, pendRej, mcOpen, mcN, clrDirty, clrN, lateAdd, polCur>>

    [] e.ev = "MaxCostBegin" ->
         /\ mcOpen' = mcOpen + 1 /\ mcN' = mcN + 1
         /\ UNCHANGED <<tid, cfg, bad, vkey, vcost, vttl, vtb, vte, accepted, refused, exitN, evictN, rejectN, 
                 exitedAt, pendCb, getSnap, ended, delBefore, cand, waitCov, dead, owed, inClear, 
                 clearEver, closed, openCalls, getsN, dropsN, getsAll, raised, maxMax, keysSeen, begunN, 
                 runN, exitDue, settled, iterSnap, pendRej, clrDirty, clrN, lateAdd, polCur>>

    [] e.ev = "MaxCost" ->
         /\ mcOpen' = mcOpen - 1
         /\ raised' = (raised \/ e.m < maxMax)      \* conservative: any value below the largest seen counts as lowering
         /\ maxMax' = IF e.m > maxMax THEN e.m ELSE maxMax
         /\ UNCHANGED <<tid, cfg, bad, vkey, vcost, vttl, vtb, vte, accepted, refused, exitN, evictN, rejectN, 
                 exitedAt, pendCb, getSnap, ended, delBefore, cand, waitCov, dead, owed, inClear, 
                 clearEver, closed, openCalls, getsN, dropsN, getsAll, keysSeen, begunN, runN, exitDue, 
                 settled, iterSnap, pendRej, mcN, clrDirty, clrN, lateAdd, polCur>>

    [] e.ev \in {"ClearBegin", "CloseBegin"} ->
         /\ owed' = Put(owed, e.c, {v \in accepted : Get0(exitN, v) = 0})
         /\ inClear' = inClear + 1 /\ clrN' = clrN + 1
         /\ clrDirty' = IF inClear = 0 THEN openCalls > 0 ELSE TRUE
         /\ clearEver' = (clearEver \/ openCalls > 0)
         /\ openCalls' = openCalls + 1
         /\ UNCHANGED <<tid, cfg, bad, vkey, vcost, vttl, vtb, vte, accepted, refused, exitN, evictN, rejectN, 
                 exitedAt, pendCb, getSnap, ended, delBefore, cand, waitCov, dead, closed, getsN, dropsN, 
                 getsAll, raised, maxMax, keysSeen, begunN, runN, exitDue, settled, iterSnap, pendRej, 
                 mcOpen, mcN, lateAdd, polCur>>

    [] e.ev \in {"ClearEnd", "CloseEnd"} ->
         /\ inClear' = inClear - 1 /\ clrN' = clrN + 1
         /\ openCalls' = openCalls - 1
         /\ closed' = (closed \/ e.ev = "CloseEnd")
         /\ getsN' = IF closed THEN getsN ELSE 0
         /\ dropsN' = IF closed THEN dropsN ELSE 0
         /\ bad' = bad \cup FlagS("C04", closed \/ ~cfg.cb \/ clrDirty \/ \A v \in owed[e.c] : Get0(exitN, v) = 1,
                                 "a value accepted before Clear/Close was not passed to OnExit exactly once by its return",
                                 \* signature of F9: every leaked value was written under a key that shares its primary
                                 \* hash with a different key written or deleted in the same history
                                 IF \A v \in owed[e.c] : Get0(exitN, v) = 1 \/
                                       \E k2 \in keysSeen : k2 # vkey[v] /\ HashOfK(k2) = HashOfK(vkey[v])
                                   THEN "F9" ELSE "")
                       \cup FlagS("C15", closed \/ ~cfg.cb \/ clrDirty \/ \A v \in owed[e.c] : Get0(exitN, v) >= 1,
                                 "a value still held or buffered when Clear/Close was called was not released through the callbacks",
                                 IF \A v \in owed[e.c] : Get0(exitN, v) >= 1 \/
                                       \E k2 \in keysSeen : k2 # vkey[v] /\ HashOfK(k2) = HashOfK(vkey[v])
                                   THEN "F9" ELSE "")
         /\ UNCHANGED <<tid, cfg, vkey, vcost, vttl, vtb, vte, accepted, refused, exitN, evictN, rejectN, 
                 exitedAt, pendCb, getSnap, ended, delBefore, cand, waitCov, dead, owed, clearEver, 
                 getsAll, raised, maxMax, keysSeen, begunN, runN, exitDue, settled, iterSnap, pendRej, 
                 mcOpen, mcN, clrDirty, lateAdd, polCur>>

    [] e.ev = "Exit" ->
         /\ exitN' = Put(exitN, e.v, Get0(exitN, e.v) + 1)
         /\ exitedAt' = exitedAt \cup {e.v}
         /\ pendCb' = Put(pendCb, e.g, 0)
         /\ bad' = bad \cup Flag("C04", Get0(exitN, e.v) = 0, "a value was passed to OnExit twice")
                       \cup Flag("C04", e.v \notin refused, "a value whose Set returned false was passed to OnExit")
                       \cup Flag("C04", Get0(pendCb, e.g) \in {0, e.v}, "OnEvict/OnReject not followed by OnExit of the same value")
                       \cup Flag("C15", ~closed, "a callback ran after Close had returned")
                       \cup Flag("C15", inClear = 0 \/ Get0(exitN, e.v) = 0, "Clear/Close released a value that had been released before")
         /\ UNCHANGED <<tid, cfg, vkey, vcost, vttl, vtb, vte, accepted, refused, evictN, rejectN, getSnap, 
                 ended, delBefore, cand, waitCov, dead, owed, inClear, clearEver, closed, openCalls, 
                 getsN, dropsN, getsAll, raised, maxMax, keysSeen, begunN, runN, exitDue, settled, 
                 iterSnap, pendRej, mcOpen, mcN, clrDirty, clrN, lateAdd, polCur>>

    [] e.ev = "Pressure" ->      \* white-box look at one key under sustained write pressure (no quiescent point)
         /\ bad' = bad \cup Flag("C14", e.v = 0 \/ e.v \notin DOMAIN vttl \/ vttl[e.v] = 0 \/ vte[e.v] < 0 \/ e.t <= vte[e.v] + vttl[e.v] + e.margin,
                                 "an entry whose TTL elapsed long ago still occupies the cache although the cache has been processing writes all the time")
         /\ UNCHANGED <<tid, cfg, vkey, vcost, vttl, vtb, vte, accepted, refused, exitN, evictN, rejectN, 
                 exitedAt, pendCb, getSnap, ended, delBefore, cand, waitCov, dead, owed, inClear, 
                 clearEver, closed, openCalls, getsN, dropsN, getsAll, raised, maxMax, keysSeen, begunN, 
                 runN, exitDue, settled, iterSnap, pendRej, mcOpen, mcN, clrDirty, clrN, lateAdd, polCur>>

    [] e.ev \in {"Evict", "Reject"} ->
         /\ IF e.ev = "Evict" THEN evictN' = Put(evictN, e.v, Get0(evictN, e.v) + 1) /\ UNCHANGED rejectN
                              ELSE rejectN' = Put(rejectN, e.v, Get0(rejectN, e.v) + 1) /\ UNCHANGED evictN
         /\ pendCb' = Put(pendCb, e.g, e.v)
         /\ pendRej' = IF e.ev = "Reject" THEN pendRej \ {e.h} ELSE pendRej
         /\ bad' = bad \cup Flag("C04", (IF e.ev = "Evict" THEN Get0(evictN, e.v) ELSE Get0(rejectN, e.v)) = 0,
                                 "OnEvict/OnReject fired twice for one value")
                       \cup Flag("C04", e.v \notin refused, "a value whose Set returned false was passed to a callback")
                       \cup Flag("C04", Get0(pendCb, e.g) = 0, "OnEvict/OnReject not followed by OnExit of the same value")
                       \* C14: with room to spare, an eviction that is not part of a Clear/Close can only be an expiry,
                       \* and then the TTL attached to that very value must have elapsed
                       \cup FlagS("C14", e.ev # "Evict" \/ ~cfg.ample \/ inClear > 0 \/ e.v \notin DOMAIN vttl
                                        \/ (vttl[e.v] > 0 /\ e.t >= vtb[e.v] + vttl[e.v]),
                                 IF e.v \in DOMAIN vttl /\ vttl[e.v] = 0
                                   THEN "expiry processing removed an entry that has no TTL"
                                   ELSE "expiry processing removed an entry whose TTL has not elapsed",
                                 \* signatures of the known sweep races (see known_findings.json)
                                 IF e.v \in DOMAIN vttl /\ vttl[e.v] = 0 /\ e.exp = 0
                                      /\ \E u \in DOMAIN vkey : u # e.v /\ vkey[u] = vkey[e.v] /\ vttl[u] > 0 /\ vtb[u] <= vtb[e.v]
                                   THEN "F8"
                                 ELSE IF e.v \in DOMAIN vttl /\ e.exp # 0 /\ (vttl[e.v] = 0 \/ e.exp # vtb[e.v] + vttl[e.v])
                                   THEN "F4" ELSE "")
         /\ UNCHANGED <<tid, cfg, vkey, vcost, vttl, vtb, vte, accepted, refused, exitN, exitedAt, getSnap, 
                 ended, delBefore, cand, waitCov, dead, owed, inClear, clearEver, closed, openCalls, 
                 getsN, dropsN, getsAll, raised, maxMax, keysSeen, begunN, runN, exitDue, settled, 
                 iterSnap, mcOpen, mcN, clrDirty, clrN, lateAdd, polCur>>

    [] e.ev = "Tick" -> UNCHANGED <<tid, cfg, bad, vkey, vcost, vttl, vtb, vte, accepted, refused, exitN, evictN, rejectN, 
                 exitedAt, pendCb, getSnap, ended, delBefore, cand, waitCov, dead, owed, inClear, 
                 clearEver, closed, openCalls, getsN, dropsN, getsAll, raised, maxMax, keysSeen, begunN, 
                 runN, exitDue, settled, iterSnap, pendRej, mcOpen, mcN, clrDirty, clrN, lateAdd, polCur>>

    [] e.ev = "Quiesce" ->
         LET probeVals == {e.probe[i][2] : i \in DOMAIN e.probe} \ {0}
             live == {v \in probeVals : v \in DOMAIN vttl}
             iterSet == ToSet(e.iter)
             expiredLong == {v \in accepted : vttl[v] > 0 /\ e.t > vte[v] + vttl[v] + e.margin}
             delKeys == DOMAIN cand \cup {delBefore[c].k : c \in DOMAIN delBefore}
         IN
         /\ bad' = bad
              \* C03
              \cup Flag("C03", e.remaining = e.maxcost - e.polsum, "RemainingCost differs from MaxCost minus the accounted costs")
              \cup FlagS("C03", "ressum" \notin DOMAIN e \/ e.remaining = e.maxcost - e.ressum,
                               "RemainingCost differs from MaxCost minus the costs accounted for the resident keys",
                               IF cfg.coll THEN "F9" ELSE "")
              \* what is resident fits: accounted costs of the resident keys, plus - for entries held in the map that the
              \* accounting does not know at all - the cost they were written with
              \cup Flag("C03", raised \/ cfg.coll \/ "unacc" \notin DOMAIN e \/
                                 e.ressum + SumCost({e.unacc[i] : i \in DOMAIN e.unacc} \cap DOMAIN vcost) <= e.maxcost,
                               "the entries held in the map cost more than MaxCost (accounted costs, plus the own cost of entries the accounting does not know) although no overwrite raised a cost and MaxCost was not lowered")
              \cup Flag("C03", raised \/ e.remaining >= 0, "RemainingCost is negative although no overwrite raised a cost and MaxCost was not lowered")
              \* C13
              \cup Flag("C13", cfg.coll \/ ToSet(e.polkeys) = ToSet(e.storekeys), "accounting and map disagree on the resident keys")
              \cup Flag("C13", cfg.coll \/ (iterSet = probeVals /\ Len(e.iter) = Cardinality(iterSet)),
                               "IterValues does not visit exactly the unexpired resident values once each")
              \* C07: an expired entry that is still in the map hides nobody else from IterValues
              \cup Flag("C07", cfg.coll \/ probeVals \subseteq iterSet \/
                                 \A i \in DOMAIN e.probeRaw : e.probeRaw[i][2] = 0 \/ e.probeRaw[i][2] \in probeVals,
                               "IterValues hides an unexpired entry while an expired one is still in the map")
              \cup Flag("C13", Len(e.storekeys) # 0 \/ Len(e.polkeys) # 0 \/ (e.remaining = e.maxcost /\ Len(e.iter) = 0),
                               "empty cache does not report its full capacity")
              \* C14: eventually reclaimed, once
              \cup FlagS("C14", ~e.final \/ ~cfg.cb \/ \A v \in expiredLong : Get0(exitN, v) = 1,
                               "an entry whose TTL elapsed long ago was never released through OnExit",
                               \* (the collision signature first: with colliding keys a value can be both late-applied and leaked)
                               IF \A v \in expiredLong : Get0(exitN, v) = 1 \/
                                    \E k2 \in keysSeen : k2 # vkey[v] /\ HashOfK(k2) = HashOfK(vkey[v]) THEN "F9"
                               ELSE IF \A v \in expiredLong : Get0(exitN, v) = 1 \/ HashOfK(vkey[v]) \in lateAdd THEN "F5" ELSE "")
              \cup Flag("C14", ~e.final \/ ~cfg.cb \/ ~cfg.ample \/ \A v \in expiredLong : Get0(exitN, v) # 1 \/ Get0(evictN, v) + Get0(rejectN, v) = 1
                                   \/ vkey[v] \in delKeys \/ \E u \in DOMAIN vkey : u # v /\ vkey[u] = vkey[v],
                               "an expired entry was released without OnEvict")
              \cup FlagS("C14", ~e.final \/ \A i \in DOMAIN e.probeRaw : LET v == e.probeRaw[i][2] IN
                                   v = 0 \/ v \notin DOMAIN vttl \/ vttl[v] = 0 \/ e.t <= vte[v] + vttl[v] + e.margin,
                               "an entry whose TTL elapsed long ago still occupies the cache",
                               IF \A i \in DOMAIN e.probeRaw : LET v == e.probeRaw[i][2] IN
                                   v = 0 \/ v \notin DOMAIN vttl \/ vttl[v] = 0 \/ e.t <= vte[v] + vttl[v] + e.margin
                                   \/ HashOfK(vkey[v]) \in lateAdd THEN "F5"
                               ELSE IF cfg.coll THEN "F9" ELSE "")
              \* C15: after a Clear the cache serves new writes as a fresh one would - that includes reclaiming what expires
              \cup FlagS("C15", ~e.final \/ ~clearEver \/ \A i \in DOMAIN e.probeRaw : LET v == e.probeRaw[i][2] IN
                                   v = 0 \/ v \notin DOMAIN vttl \/ vttl[v] = 0 \/ e.t <= vte[v] + vttl[v] + e.margin,
                               "after a Clear, an entry whose TTL elapsed long ago still occupies the cache",
                               IF \A i \in DOMAIN e.probeRaw : LET v == e.probeRaw[i][2] IN
                                   v = 0 \/ v \notin DOMAIN vttl \/ vttl[v] = 0 \/ e.t <= vte[v] + vttl[v] + e.margin
                                   \/ HashOfK(vkey[v]) \in lateAdd THEN "F5"
                               ELSE IF cfg.coll THEN "F9" ELSE "")
              \* C15: directly after a Clear that overlapped nothing the cache is empty and reset
              \cup Flag("C15", lastEv # "ClearEnd" \/ clearEver \/
                                 (Len(e.storekeys) = 0 /\ Len(e.polkeys) = 0 /\ e.remaining = e.maxcost /\ Len(e.iter) = 0 /\ e.emn = 0),
                               "Clear left entries, accounting or expiry index behind")
              \cup Flag("C15", lastEv # "ClearEnd" \/ clearEver \/ "estmax" \notin DOMAIN e \/ e.estmax = 0,
                               "Clear did not reset the access-frequency estimates")
              \cup Flag("C15", lastEv # "ClearEnd" \/ clearEver \/ ~cfg.metrics \/
                                 (e.metrics.hits = 0 /\ e.metrics.misses = 0 /\ e.metrics.keysAdded = 0 /\ e.metrics.keysEvicted = 0
                                  /\ e.metrics.costAdded = 0 /\ e.metrics.costEvicted = 0 /\ e.metrics.setsDropped = 0
                                  /\ e.metrics.setsRejected = 0 /\ e.metrics.keysUpdated = 0),
                               "Clear did not reset the metrics")
              \* C17
              \cup Flag("C17", ~cfg.metrics \/ clearEver \/ e.metrics.hits + e.metrics.misses = getsN, "Hits+Misses differs from the number of Gets")
              \cup Flag("C17", ~cfg.metrics \/ cfg.coll \/ e.metrics.keysAdded - e.metrics.keysEvicted = Len(e.storekeys),
                               "KeysAdded-KeysEvicted differs from the number of resident keys")
              \cup Flag("C17", ~cfg.metrics \/ e.metrics.costAdded - e.metrics.costEvicted = e.maxcost - e.remaining,
                               "CostAdded-CostEvicted differs from MaxCost-RemainingCost")
              \cup Flag("C17", ~cfg.metrics \/ clearEver \/ e.metrics.setsDropped = dropsN, "SetsDropped differs from the number of refused new Sets")
              \cup Flag("C17", ~cfg.metrics \/ e.metrics.getsKept + e.metrics.getsDropped <= getsAll, "GetsKept+GetsDropped exceeds the number of Gets")
              \cup Flag("C04", \A g \in DOMAIN pendCb : pendCb[g] = 0, "OnEvict/OnReject not followed by OnExit of the same value")
         /\ settled' = exitedAt
         /\ UNCHANGED <<tid, cfg, vkey, vcost, vttl, vtb, vte, accepted, refused, exitN, evictN, rejectN, 
                 exitedAt, pendCb, getSnap, ended, delBefore, cand, waitCov, dead, owed, inClear, 
                 clearEver, closed, openCalls, getsN, dropsN, getsAll, raised, maxMax, keysSeen, begunN, 
                 runN, exitDue, iterSnap, pendRej, mcOpen, mcN, clrDirty, clrN, lateAdd, polCur>>

    [] e.ev = "Added" ->       \* white-box: policy.Add returned (added, number of victims, accounting afterwards)
         /\ bad' = bad \cup Flag("C03", ~e.added \/ polCur = NoPol \/ polCur.h # e.h \/ polCur.mc # e.mcb \/ e.used <= polCur.max,
                                 "an admission left the accounted cost above MaxCost")
                       \cup Flag("C03", ~e.added \/ polCur = NoPol \/ polCur.h # e.h \/ polCur.mc # e.mcb \/ e.cost <= polCur.max,
                                 "an item larger than MaxCost was admitted")
                       \cup Flag("C09", polCur = NoPol \/ polCur.h # e.h \/ polCur.mc # e.mcb \/ ~polCur.fits \/ (e.added /\ e.nv = 0),
                                 "an item that fits in the remaining capacity was not admitted without eviction")
                       \cup Flag("C09", polCur = NoPol \/ polCur.h # e.h \/ ~e.added \/ ~polCur.lower,
                                 "an item was admitted although its estimate is lower than the least-frequent candidate's")
                       \cup Flag("C09", polCur = NoPol \/ polCur.h # e.h \/ polCur.mc # e.mcb \/ e.added \/ polCur.has \/ polCur.big \/ polCur.lower,
                                 "an item was turned away although its estimate is not lower than the least-frequent candidate's")
         /\ polCur' = NoPol
         /\ pendRej' = IF e.added \/ ~cfg.cb THEN pendRej ELSE pendRej \cup {e.h}
         /\ lateAdd' = IF e.added /\ \E u \in DOMAIN vkey : HashOfK(vkey[u]) = e.h /\ vttl[u] > 0 /\ Get0(exitN, u) = 0
                                                          /\ e.t > vtb[u] + vttl[u]
                        THEN lateAdd \cup {e.h} ELSE lateAdd
         /\ UNCHANGED <<tid, cfg, vkey, vcost, vttl, vtb, vte, accepted, refused, exitN, evictN, rejectN, 
                 exitedAt, pendCb, getSnap, ended, delBefore, cand, waitCov, dead, owed, inClear, 
                 clearEver, closed, openCalls, getsN, dropsN, getsAll, raised, maxMax, keysSeen, begunN, 
                 runN, exitDue, settled, iterSnap, mcOpen, mcN, clrDirty, clrN>>

    [] e.ev = "PolEnter" ->    \* white-box, under the policy lock: the state the decision starts from
         /\ bad' = bad \cup Flag("C09", pendRej = {}, "an item turned away by the policy was not reported through OnReject")
         /\ pendRej' = {}
         /\ polCur' = [h |-> e.h, has |-> e.has, big |-> e.cost > e.max, fits |-> (~e.has /\ e.cost <= e.max /\ e.max - ((IF "ksum" \in DOMAIN e THEN e.ksum ELSE e.used) + e.cost) >= 0),
                       lower |-> FALSE, inc |-> e.inc, max |-> e.max, rounds |-> 0,
                       \* MaxCost is read without the policy lock: the record is usable only if no UpdateMaxCost was in
                       \* progress when it was taken (harness counters sampled before the read)
                       mc |-> IF e.mcb = e.mce THEN e.mcb ELSE -1]
         /\ UNCHANGED <<tid, cfg, vkey, vcost, vttl, vtb, vte, accepted, refused, exitN, evictN, rejectN, 
                 exitedAt, pendCb, getSnap, ended, delBefore, cand, waitCov, dead, owed, inClear, 
                 clearEver, closed, openCalls, getsN, dropsN, getsAll, raised, maxMax, keysSeen, begunN, 
                 runN, exitDue, settled, iterSnap, mcOpen, mcN, clrDirty, clrN, lateAdd>>

    [] e.ev = "PolRound" ->    \* white-box, under the policy lock: one sampling round
         LET ests == {e.sample[i][2] : i \in DOMAIN e.sample}
             mn == IF ests = {} THEN 1000000000 ELSE CHOOSE x \in ests : \A y \in ests : x <= y IN
         /\ polCur' = IF polCur = NoPol THEN polCur ELSE [polCur EXCEPT !.lower = (e.inc < mn), !.rounds = @ + 1]
         /\ bad' = bad \cup Flag("C09", polCur = NoPol \/ polCur.h # e.h \/ ~polCur.lower,
                                 "eviction went on although the newcomer's estimate is lower than the least-frequent candidate's")
                       \* sampled LFU: while room must be made, the candidates are (up to five of) the accounted keys;
                       \* with at most five accounted keys every one of them is a candidate
                       \cup Flag("C09", "pop" \notin DOMAIN e \/ Len(e.pop) = 0 \/ Len(e.sample) > 0,
                                 "the newcomer was judged against an empty candidate sample although keys are accounted")
                       \cup Flag("C09", "pop" \notin DOMAIN e \/ Len(e.pop) > 5 \/ polCur = NoPol \/ polCur.h # e.h \/ polCur.rounds # 0 \/
                                       \A i \in DOMAIN e.pop : \E j \in DOMAIN e.sample : e.sample[j][1] = e.pop[i],
                                 "an accounted key is missing from the candidate sample although at most five keys are accounted")
                       \cup Flag("C09", "pop" \notin DOMAIN e \/ Len(e.pop) <= 5 \/ Len(e.sample) >= 5,
                                 "fewer than five candidates were sampled although more than five keys are accounted")
                       \cup Flag("C09", polCur = NoPol \/ polCur.h # e.h \/ e.inc = polCur.inc,
                                 "the decision used an estimate of the newcomer that differs from its estimate at decision time")
                       \cup Flag("C09", e.inc < mn \/ e.minHits = mn, "the victim is not the least-frequently-accessed of the sampled candidates")
                       \cup Flag("C09", e.inc < mn \/ \E i \in DOMAIN e.sample : e.sample[i][1] = e.min /\ e.sample[i][2] = mn,
                                 "the victim is not one of the sampled candidates with the lowest estimate")
                       \cup Flag("C09", e.inc < mn \/ e.minHits <= e.inc, "a victim has a higher estimate than the newcomer")
         /\ UNCHANGED <<tid, cfg, vkey, vcost, vttl, vtb, vte, accepted, refused, exitN, evictN, rejectN, 
                 exitedAt, pendCb, getSnap, ended, delBefore, cand, waitCov, dead, owed, inClear, 
                 clearEver, closed, openCalls, getsN, dropsN, getsAll, raised, maxMax, keysSeen, begunN, 
                 runN, exitDue, settled, iterSnap, pendRej, mcOpen, mcN, clrDirty, clrN, lateAdd>>

    [] e.ev = "RingCheck" ->   \* the Get-frequency pipeline driven on its own (harness/cache/ring_test.go.txt)
         /\ bad' = bad \cup Flag("C17", e.kept + e.dropped <= e.gets, "GetsKept+GetsDropped exceeds the number of Gets")
                       \cup Flag("C17", \A i \in DOMAIN e.perkey : e.perkey[i][3] <= e.perkey[i][2] \/ e.perkey[i][3] > 15,
                                 "a key's access-frequency estimate exceeds the number of Gets of that key")
         /\ UNCHANGED <<tid, cfg, vkey, vcost, vttl, vtb, vte, accepted, refused, exitN, evictN, rejectN, 
                 exitedAt, pendCb, getSnap, ended, delBefore, cand, waitCov, dead, owed, inClear, 
                 clearEver, closed, openCalls, getsN, dropsN, getsAll, raised, maxMax, keysSeen, begunN, 
                 runN, exitDue, settled, iterSnap, pendRej, mcOpen, mcN, clrDirty, clrN, lateAdd, polCur>>

    [] e.ev \in {"Leak", "Panic", "Hang", "Race"} ->
         /\ bad' = bad \cup Flag("C08", FALSE, e.ev \o ": " \o e.what)
                       \cup Flag("C15", e.ev # "Leak", "goroutines of the cache are still blocked after Close")
         /\ UNCHANGED <<tid, cfg, vkey, vcost, vttl, vtb, vte, accepted, refused, exitN, evictN, rejectN, 
                 exitedAt, pendCb, getSnap, ended, delBefore, cand, waitCov, dead, owed, inClear, 
                 clearEver, closed, openCalls, getsN, dropsN, getsAll, raised, maxMax, keysSeen, begunN, 
                 runN, exitDue, settled, iterSnap, pendRej, mcOpen, mcN, clrDirty, clrN, lateAdd, polCur>>

Next == /\ l <= Len(Trace)
        /\ l' = l + 1
        /\ lastEv' = Trace[l].ev
        /\ Step(Trace[l])

Spec == Init /\ [][Next]_vars

Report == (l = Len(Trace) + 1) => PrintT(<<"OBS-RESULT", bad>>)
=============================================================================
