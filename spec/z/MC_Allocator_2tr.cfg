\* thorough: 2 threads x 2 requests per epoch, one Reset
SPECIFICATION Spec
CONSTANTS
  Threads = {t1, t2}
  Sizes = {1, 4, 5, 9}
  Kinds = {"plain"}
  C0 = 4
  MaxAlloc = 32
  MaxChunks = 12
  NReq = 2
  MaxResets = 1
  TrimMaxes = {}
  MaxTrims = 0
  PosBase = 1024
  AlignM1 = 7
  BaseMods = {0}
  FixTrimKeepFirst = FALSE
  TrackReplay = FALSE
SYMMETRY Symm
INVARIANTS TypeOK Disjoint InChunk ExactLen AlignedOK MutexOK NoSpin ReplaySame
PROPERTIES Stable
