------------------------------ MODULE TreeGoals ------------------------------
(* Coverage goals for the page-level model of z.Tree: corner situations of the buffer-growth dimension
   that the checks must exercise on the real tree.  Each goal G_x is the NEGATION of a situation; TLC
   (simulation with G_x as invariant) stops at the first behaviour that reaches it, and that behaviour
   is replayed on a real tree built with the same scaled minSize (harness: "ms"), where a reallocation
   of the backing z.Buffer / a remapping of the file happens every few pages as it does here.

   The situations are about WHERE inside Tree.Set the buffer is reallocated: every newNode call can
   move t.data, and every slice (node) obtained before it is stale afterwards.
     realloc_below_root  - in a leaf / internal split below the root (Tree.set re-reads n and child)
     realloc_root_right  - in split(1), the first page of a root split
     realloc_root_left   - in newNode(left), the second page of a root split
     grow_after_reopen2  - a file that had been extended twice is closed, reopened and extended again
   MinSize is chosen per behaviour from MinSizes (variable ms), so that TLC finds the sizes for which
   a reallocation falls exactly on a root split.                                                  *)
EXTENDS TreePages

CONSTANTS MinSizes     \* candidate scaled minSize values (bytes)

VARIABLES ms,          \* the minSize of this behaviour
          note,        \* situations of the last step
          grows,       \* number of steps so far in which cap(t.data) changed
          reop         \* value of `grows` at the last reopen, -1 = never reopened
gvars == <<vars, ms, note, grows, reop>>

GInitTree(s) == IF Persistent THEN NewPersistent(T0(MK, PS, AbsMax, MaxPid), s)
                              ELSE NewInMemory(T0(MK, PS, AbsMax, MaxPid), s)
GInit == /\ MInit
         /\ ms \in MinSizes
         /\ LET t == GInitTree(ms) IN
            /\ pages = t.pages /\ link = t.link /\ nextPage = t.nextPage /\ freePage = t.freePage
            /\ nLeafKeys = t.nLeafKeys /\ nPagesFree = t.nPagesFree /\ dataLen = t.dataLen
            /\ capLen = t.capLen /\ err = t.err
         /\ note = {} /\ grows = 0 /\ reop = -1

\* where the reallocations of Tree.Set(k, v) fall
SetNote(k, v) ==
  LET t == Cur
      t1 == SetRec(t, 1, k, v)
      full == t1.err = "none" /\ Len(t1.pages[1].keys) = MK
      s == Split(t1, 1)
      l == NewNode(s[1], FALSE)
  IN (IF t1.capLen # t.capLen THEN {"realloc_below_root"} ELSE {})
     \cup (IF full THEN {"root_split"}
                        \cup (IF s[1].capLen # t1.capLen THEN {"realloc_root_right"} ELSE {})
                        \cup (IF l[1].capLen # s[1].capLen THEN {"realloc_root_left"} ELSE {})
                   ELSE {})

Grew == IF capLen' # capLen THEN 1 ELSE 0

GSet(k, v) == /\ DoSet(k, v) /\ note' = SetNote(k, v) /\ grows' = grows + Grew /\ UNCHANGED <<ms, reop>>
GDel(ts)   == /\ DoDeleteBelow(ts) /\ note' = {} /\ UNCHANGED <<ms, grows, reop>>
GReopen    == /\ DoReopen /\ reop # grows /\ note' = {"reopen"} /\ reop' = grows /\ UNCHANGED <<ms, grows>>

GNext == \/ \E k \in Keys, v \in Vals : GSet(k, v)
         \/ \E ts \in Thresholds : (WithRewrite /\ GDel(ts))      \* WithRewrite doubles as "with deletes" here
         \/ GReopen
GSpec == GInit /\ [][GNext]_gvars

G_ReallocBelowRoot == ~("realloc_below_root" \in note)
G_ReallocRootRight == ~("realloc_root_right" \in note)
G_ReallocRootLeft  == ~("realloc_root_left" \in note)
G_ReallocRootAfterReopen == ~(reop >= 0 /\ {"realloc_root_right", "realloc_root_left"} \cap note # {})
G_GrowAfterReopen2 == ~(reop >= 2 /\ grows > reop)
\* the design invariants hold in the scaled configurations as well (checked by the same runs)
GSafe == NoError /\ Sorted /\ MapRefinement /\ IterateExact /\ NoLeak /\ InBoundsAll /\ ReopenNoPanic /\ ReopenSame
=============================================================================
