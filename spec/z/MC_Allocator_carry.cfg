\* NOT part of the check: the 32-bit carry made visible with a 4-bit offset field (PosBase = 16).
\* Three threads overshooting chunk 0 at once push the offset over PosBase; TLC reports the violation.
SPECIFICATION Spec
CONSTANTS
  Threads = {t1, t2, t3}
  Sizes = {5, 9}
  Kinds = {"plain"}
  C0 = 4
  MaxAlloc = 16
  MaxChunks = 12
  NReq = 1
  MaxResets = 0
  TrimMaxes = {}
  MaxTrims = 0
  PosBase = 16
  AlignM1 = 7
  BaseMods = {0}
  FixTrimKeepFirst = FALSE
  TrackReplay = FALSE
INVARIANTS TypeOK Disjoint InChunk ExactLen
