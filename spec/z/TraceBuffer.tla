----------------------------- MODULE TraceBuffer -----------------------------
(* Trace specification for z.Buffer (property C11): consumes trace.ndjson recorded from the real
   buffer by harness/z/buffer_test.go.txt.

   The harness writes payloads that are a PRF of (id, length) and, after every call, DECODES what the
   buffer really holds back into <<id, length>> records (id 0 = the empty payload, id -1 = bytes that
   match no payload it ever issued).  All comparing is done here:

     bad   - the history violates C11 as stated:
               Bytes() is not the concatenation of what was written, in order;
               SliceIterate / the Slice(offset) chain / SliceOffsets do not yield exactly the
               non-empty slices written, intact and in order;  LenNoPadding is not the number of
               bytes written;  a call panicked although it stays within the WithMaxSize limit (its
               bytes are lost), did not panic although it goes beyond it, or the buffer holds more
               than the limit;  a sort did not leave a permutation of the same slices ordered by the
               comparison function (or moved slices outside the range);  a call never returned.
     drift - the code's white-box state (curSz, mode) or the low-level return values differ from the
             design spec: BufferOps!OpGrow (the growth rule of Buffer.tla), offsets of the slices,
             the Slice chain including the empty slices.

   Events (one JSON object per line; [id,n] pairs are JSON arrays):
     {ev:"New", t, ctor, mode, cap, curSz, maxSz, auto, pad, lenNP, lenWP}
     {ev:"Call", op, id, n}               written (and flushed) BEFORE the call is made
     {ev:"Op", op, id, n, panic, ret, VIEWS}            op in Write Allocate AllocateOffset WriteSlice SliceAllocate
     {ev:"Reset", VIEWS}
     {ev:"Fill", recs:[[id,n]..], panic, VIEWS}         many WriteSlice/SliceAllocate calls, views once
     {ev:"Sort", between, lo, hi, start, end, cmp, panic, keysBefore:[..], keysAfter:[..], VIEWS}
   VIEWS = lenNP, lenWP, curSz, mode, data0, fv, vpanic, bytes:[[id,n]..], iter, chain, offs:[int..], offsl
     data0  = len(Data(0)), the length of the backing slice
     fv     = the framed views (iter, chain, offs, offsl) were taken (never in a raw epoch)
     vpanic = one of the read calls panicked
     keysBefore[i] = the comparator's key of the i-th record the harness wrote (from its own payload),
     keysAfter[i]  = the key of the i-th slice actually found in Bytes() after the sort;
     less(a, b) <=> key(a) < key(b) for every comparator of the family.                          *)
EXTENDS Integers, Sequences, FiniteSets, TLC, Json, SequencesExt, BufferOps

Trace == ndJsonDeserialize("trace.ndjson")

Hdr == 8
GrowCap == 1073741824

VARIABLES l, tid, pad, maxSz, auto,   \* configuration of the current trace
          kind, exp,                  \* observer: epoch kind, records written since the last Reset
          mcur, mmode,                \* design model: capacity and mode
          pending,                    \* the Call not yet answered
          bad, drift
vars == <<l, tid, pad, maxSz, auto, kind, exp, mcur, mmode, pending, bad, drift>>

FlagT(cond, t, why) == IF cond THEN {} ELSE {[at |-> l, trace |-> t, why |-> why]}
Flag(cond, why) == FlagT(cond, tid, why)

SizeOf(w, k) == FoldLeft(LAMBDA acc, r : acc + (IF k = "raw" THEN 0 ELSE Hdr) + r[2], 0, w)
NonEmpty(w) == SelectSeq(w, LAMBDA r : r[2] > 0)
\* SliceOffsets per the design (Buffer.tla!OffsView): an empty buffer yields <<pad>>
Offs(w) == IF w = <<>> THEN <<pad>>
           ELSE FoldLeft(LAMBDA acc, r : [offs |-> Append(acc.offs, acc.at), at |-> acc.at + Hdr + r[2]],
                         [offs |-> <<>>, at |-> pad], w).offs

\* interface-level judgement of the views taken after a call; w = records expected, k = epoch kind
ViewBad(e, w, k) ==
  LET ne == NonEmpty(w) IN
     Flag(~e.vpanic, "a read call (Bytes/SliceIterate/Slice/SliceOffsets) panicked")
  \cup Flag(e.lenNP = SizeOf(w, k), "LenNoPadding is not the number of bytes written")
  \cup Flag(e.bytes = (IF k = "raw" THEN ne ELSE w), "Bytes() differs from what was written")
  \cup (IF k = "raw" THEN {}
        ELSE Flag(e.iter = ne, "SliceIterate does not yield exactly the non-empty slices written")
        \cup Flag(NonEmpty(e.chain) = ne, "the Slice(offset) chain does not yield the non-empty slices written")
        \cup Flag(NonEmpty(e.offsl) = ne, "SliceOffsets does not lead to the non-empty slices written"))
  \cup Flag(maxSz > 0 => e.lenWP <= maxSz, "the buffer holds more than the WithMaxSize limit")

ViewDrift(e, w, k) ==
     Flag(e.lenWP = e.lenNP + pad, "LenWithPadding - LenNoPadding is not the padding")
  \cup Flag(e.data0 = e.curSz, "len(Data(0)) is not the capacity")
  \cup (IF k = "raw" \/ e.vpanic THEN {}
        ELSE Flag(e.chain = (IF w = <<>> THEN <<<<0, 0>>>> ELSE w), "Slice chain (with empty slices) differs from the design")
        \cup Flag(e.offs = Offs(w), "SliceOffsets differs from the design"))

Answered(e, op) == Assert(pending # <<>> /\ pending[1] = op, <<"event without its Call", l, e.ev>>)

Step(e) ==
  CASE e.ev = "New" ->
         /\ Assert(pending = <<>>, <<"New while a call is pending", l>>)
         /\ tid' = e.t /\ pad' = e.pad /\ maxSz' = e.maxSz /\ auto' = e.auto
         /\ kind' = "none" /\ exp' = <<>> /\ mcur' = e.curSz /\ mmode' = e.mode /\ pending' = <<>>
         /\ bad' = bad \cup FlagT(e.lenNP = 0, e.t, "a new buffer is not empty")
         /\ drift' = drift \cup FlagT((("reopen" \in DOMAIN e /\ e.reopen) \/ e.curSz = (IF e.cap < 64 THEN 64 ELSE e.cap)) /\ e.pad = 8 /\ e.lenWP = 8, e.t,
                                       "initial capacity/padding differ from the design")
    [] e.ev = "Call" ->
         /\ Assert(pending = <<>>, <<"Call while a call is pending", l>>)
         /\ pending' = <<e.op, e.id, e.n>>
         /\ UNCHANGED <<tid, pad, maxSz, auto, kind, exp, mcur, mmode, bad, drift>>
    [] e.ev = "Op" ->
         LET fr     == Framed(e.op)
             k2     == IF fr THEN "framed" ELSE "raw"
             pre    == pad + SizeOf(exp, kind)
             should == maxSz > 0 /\ pre + Need(e.op, e.n, Hdr) > maxSz
             w      == IF e.panic THEN exp ELSE Append(exp, <<e.id, e.n>>)
             kk     == IF e.panic THEN kind ELSE k2
             g      == OpGrow(e.op, e.n, Hdr, mcur, mmode, pre, maxSz, auto, GrowCap)
         IN /\ Answered(e, e.op)
            /\ Assert(Framed(e.op) \/ RawOp(e.op), <<"unknown op", l>>)
            /\ Assert(kind \in {"none", k2}, <<"harness mixed raw and framed calls", l>>)
            /\ Assert(e.fv = (kk # "raw"), <<"views do not fit the epoch", l>>)
            /\ exp' = w /\ kind' = kk /\ pending' = <<>>
            /\ bad' = bad \cup Flag(e.panic => should, "a call within the limit panicked (its bytes are lost)")
                          \cup Flag(should => e.panic, "a call beyond the WithMaxSize limit did not panic")
                          \cup ViewBad(e, w, kk)
            /\ drift' = drift \cup Flag(e.curSz = g.curSz /\ e.mode = g.mode, "capacity/mode differ from the design's growth rule")
                              \cup Flag(~g.inner, "nested Grow of SliceAllocate grew")
                              \cup Flag(e.panic \/ e.ret = (IF e.op = "AllocateOffset" THEN pre ELSE e.n), "return value differs from the design")
                              \cup ViewDrift(e, w, kk)
            /\ mcur' = e.curSz /\ mmode' = e.mode
            /\ UNCHANGED <<tid, pad, maxSz, auto>>
    [] e.ev = "Huge" ->        \* one AllocateOffset above the 1 GiB growth step (the region is never touched; last event of its trace)
         LET pre == pad + SizeOf(exp, kind)
             g   == OpGrow("AllocateOffset", e.n, Hdr, mcur, mmode, pre, maxSz, auto, GrowCap)
         IN /\ Assert(pending = <<>>, <<"Huge while a call is pending", l>>)
            /\ bad' = bad \cup Flag(~e.panic, "a call within the limit panicked (its bytes are lost)")
                          \cup Flag(e.panic \/ e.lenNP = SizeOf(exp, kind) + e.n, "LenNoPadding is not the number of bytes written")
                          \cup Flag(e.panic \/ e.blen = SizeOf(exp, kind) + e.n, "Bytes() differs from what was written")
            /\ drift' = drift \cup Flag(e.curSz = g.curSz /\ e.mode = g.mode, "capacity/mode differ from the design's growth rule")
                              \cup Flag(e.panic \/ e.off = pre, "return value differs from the design")
            /\ mcur' = e.curSz /\ mmode' = e.mode
            /\ UNCHANGED <<tid, pad, maxSz, auto, kind, exp, pending>>
    [] e.ev = "Reset" ->
         /\ Answered(e, "Reset")
         /\ Assert(e.fv, <<"views do not fit the epoch", l>>)
         /\ exp' = <<>> /\ kind' = "none" /\ pending' = <<>>
         /\ bad' = bad \cup ViewBad(e, <<>>, "none")
         /\ drift' = drift \cup Flag(e.curSz = mcur /\ e.mode = mmode, "Reset changed capacity/mode")
                           \cup ViewDrift(e, <<>>, "none")
         /\ mcur' = e.curSz /\ mmode' = e.mode
         /\ UNCHANGED <<tid, pad, maxSz, auto>>
    [] e.ev = "Fill" ->
         LET w == exp \o e.recs
             g == FoldLeft(LAMBDA st, r :
                             LET x == OpGrow("WriteSlice", r[2], Hdr, st.curSz, st.mode, st.off, 0, auto, GrowCap)
                             IN [curSz |-> x.curSz, mode |-> x.mode, off |-> x.off],
                           [curSz |-> mcur, mode |-> mmode, off |-> pad + SizeOf(exp, kind)], e.recs)
         IN /\ Answered(e, "Fill")
            /\ Assert(kind \in {"none", "framed"} /\ maxSz = 0 /\ e.fv, <<"Fill in the wrong place", l>>)
            /\ exp' = w /\ kind' = "framed" /\ pending' = <<>>
            /\ bad' = bad \cup Flag(~e.panic, "a call within the limit panicked (its bytes are lost)")
                          \cup ViewBad(e, w, "framed")
            /\ drift' = drift \cup Flag(e.curSz = g.curSz /\ e.mode = g.mode, "capacity/mode differ from the design's growth rule")
                              \cup ViewDrift(e, w, "framed")
            /\ mcur' = e.curSz /\ mmode' = e.mode
            /\ UNCHANGED <<tid, pad, maxSz, auto>>
    [] e.ev = "Sort" ->
         LET n     == Len(exp)
             lo    == e.lo
             hi    == e.hi
             after == e.bytes
             lenok == Len(after) = n /\ Len(e.keysAfter) = n
             Tr(s, keys) == [i \in 1..(hi - lo) |-> <<s[lo + i][1], s[lo + i][2], keys[lo + i]>>]
             ById(a, b) == a[1] < b[1]
             offs  == Offs(exp)
         IN /\ Answered(e, IF e.between THEN "SortSliceBetween" ELSE "SortSlice")
            /\ Assert(kind = "framed" /\ e.fv /\ Len(e.keysBefore) = n /\ 0 <= lo /\ lo < hi /\ hi <= n,
                      <<"Sort in the wrong place", l>>)
            /\ Assert(e.start = offs[lo + 1] /\ e.end = (IF hi = n THEN pad + SizeOf(exp, kind) ELSE offs[hi + 1]),
                      <<"sort range is not on the slice boundaries the harness claims", l>>)
            /\ exp' = after /\ pending' = <<>>
            /\ bad' = bad \cup Flag(~e.panic, "the sort panicked")
                          \cup Flag(lenok, "the sort changed the number of slices")
                          \cup (IF ~lenok THEN {} ELSE
                                   Flag(SubSeq(after, 1, lo) = SubSeq(exp, 1, lo) /\ SubSeq(after, hi + 1, n) = SubSeq(exp, hi + 1, n),
                                        "the sort moved slices outside the range")
                              \cup Flag(SortSeq(Tr(after, e.keysAfter), ById) = SortSeq(Tr(exp, e.keysBefore), ById),
                                        "the sort did not leave a permutation of the same slices")
                              \cup Flag(\A i \in (lo + 1)..(hi - 1) : e.keysAfter[i] <= e.keysAfter[i + 1],
                                        "the sort did not order the slices by the comparison function"))
                          \cup ViewBad(e, after, "framed")
            /\ drift' = drift \cup Flag(e.curSz = mcur /\ e.mode = mmode, "the sort changed capacity/mode")
                              \cup ViewDrift(e, after, "framed")
            /\ mcur' = e.curSz /\ mmode' = e.mode
            /\ UNCHANGED <<tid, pad, maxSz, auto, kind>>

Init == /\ l = 1 /\ tid = 0 /\ pad = 8 /\ maxSz = 0 /\ auto = 0 /\ kind = "none" /\ exp = <<>>
        /\ mcur = 64 /\ mmode = "calloc" /\ pending = <<>> /\ bad = {} /\ drift = {}

Next == /\ l <= Len(Trace)
        /\ l' = l + 1
        /\ Step(Trace[l])

Spec == Init /\ [][Next]_vars

\* a Call without its answer at the end of the trace: the process was aborted inside the buffer
\* (z.assert -> log.Fatalf), or the call hung
Unanswered == IF pending = <<>> THEN {}
              ELSE {[at |-> l - 1, trace |-> tid, why |-> "a call never returned (the process aborted inside the buffer)"]}

\* printed once, from the state that has consumed the whole trace
Report == (l = Len(Trace) + 1) => PrintT(<<"OBS-RESULT", bad \cup Unanswered, drift>>)
=============================================================================
