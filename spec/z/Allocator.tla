----------------------------- MODULE Allocator -----------------------------
(* Design specification of z.Allocator (z/allocator.go), implementation-shaped.

   compIdx is ONE atomic word holding the chunk index in the high bits and the offset in the low
   PosBits bits; the model keeps it as the integer `comp` with  Bi = comp \div PosBase  and
   Pi = comp % PosBase  (PosBase = 2^32 in the code).  With PosBase far above every reachable offset
   the two fields never interact (the assumption made for the real runs, DESIGN.md section 11); a
   small PosBase (MC_Allocator_carry.cfg) shows what the 32-bit carry does.

   Allocate(sz), one action per code segment between two hook points (z/allocator.go, tag verif):
     Start    the call is made (the goroutine stands before the atomic add, hook 0)
     Add      pos := atomic.AddUint64(&compIdx, sz)                          (hook 1 after it)
     Return   posIdx <= len(buffers[bufIdx]): hand out buf[posIdx-sz : posIdx]
     Lock     posIdx >  len(buffers[bufIdx]): a.Lock()                       (hook 2 after it)
     Decide   re-read compIdx; chunk index changed -> Unlock, retry          (hook 3)
              else addBufferAt(bufIdx+1, sz), publish (bufIdx+1, 0), Unlock  (hook 4), retry
   Test-and-Lock and Decide-and-Unlock are single actions: the test reads only the thread's own
   add result and the length of a published chunk (which never changes), and the only action that
   conflicts with Unlock is another thread's Lock, which is disabled until it happens.

   addBufferAt(i, minSz) as the code does it: scan from i for the first chunk that is empty (len 0)
   or has len >= minSz (reuse after Reset); if empty, allocate max(2*len(chunk i-1) doubled until
   >= minSz) capped at MaxAlloc.  NOTE the published index is bufIdx+1 even when the scan stopped
   further right.  If len(chunk i-1) = 0 the doubling loop never ends (pc = "spin", defect F7: TrimTo
   frees chunk 0); FixTrimKeepFirst = TRUE models the repair (TrimTo keeps chunk 0), FALSE = the
   code as it is.

   Reset (compIdx := 0) and TrimTo(max) are taken at quiescent points only (no call in progress);
   after a TrimTo that freed the chunk the position points into, the next operation must be Reset
   (that is how AllocatorPool uses it: Return = TrimTo, Get = Reset).
   AllocateAligned(sz) = Allocate(sz + AlignM1) and the sub-slice starting at the next multiple of
   AlignM1+1 of the address (chunk base address mod AlignM1+1 = cbase, chosen from BaseMods when a
   chunk is created).  Copy(buf) = Allocate(len(buf)) + copy: the same action as a plain request
   (byte contents are checked on the real code, not here).                                         *)
EXTENDS Integers, Sequences, FiniteSets, TLC

CONSTANTS Threads,          \* allocating goroutines
          Sizes,            \* request sizes (> 0)
          Kinds,            \* subset of {"plain", "aligned"}
          C0,               \* length of chunk 0
          MaxAlloc,         \* maxAlloc (1 << 30 in the code)
          MaxChunks,        \* model bound on the chunk table (64 in the code)
          NReq,             \* calls per thread and epoch (epoch = time between two Resets)
          MaxResets,        \* bound on Reset
          TrimMaxes,        \* arguments of TrimTo ({} = no TrimTo)
          MaxTrims,
          PosBase,          \* 2^PosBits
          AlignM1,          \* nodeAlign (7 in the code)
          BaseMods,         \* possible chunk base addresses modulo AlignM1+1
          FixTrimKeepFirst, \* FALSE = code as it is
          TrackReplay       \* keep the request history needed by ReplaySame

NoThread == "none"
Idx == 0..(MaxChunks - 1)

VARIABLES comp,        \* the atomic word
          chunks,      \* Idx -> length (0 = no chunk)
          cbase,       \* Idx -> base address modulo AlignM1+1
          mutex,       \* holder or NoThread
          pc,          \* thread -> "idle" | "add" | "test" | "decide" | "spin"
          my,          \* thread -> value returned by its last atomic add
          req,         \* thread -> [kind, want, raw]
          left,        \* thread -> calls left in this epoch
          handed,      \* history: regions handed out since the last Reset
          resets, trims, needReset,
          ereqs, eseq, \* history: requests of this epoch in call order; were the calls sequential (and no TrimTo)?
          prev         \* history: [ok, reqs, alloc] of the previous epoch at its Reset
vars == <<comp, chunks, cbase, mutex, pc, my, req, left, handed, resets, trims, needReset, ereqs, eseq, prev>>

Bi(c) == c \div PosBase
Pi(c) == c % PosBase
Raw(k, sz) == IF k = "aligned" THEN sz + AlignM1 ELSE sz
A == AlignM1 + 1
Min(a, b) == IF a < b THEN a ELSE b

RECURSIVE SumTo(_, _)
SumTo(f, i) == IF i < 0 THEN 0 ELSE f[i] + SumTo(f, i - 1)
Allocated(f) == SumTo(f, MaxChunks - 1)
Quiescent == \A t \in Threads : pc[t] = "idle"
IsPrefix(s, t) == Len(s) <= Len(t) /\ \A i \in 1..Len(s) : s[i] = t[i]

Init == /\ comp = 0
        /\ chunks = [i \in Idx |-> IF i = 0 THEN C0 ELSE 0]
        /\ \E b \in BaseMods : cbase = [i \in Idx |-> IF i = 0 THEN b ELSE CHOOSE x \in BaseMods : TRUE]
        /\ mutex = NoThread
        /\ pc = [t \in Threads |-> "idle"]
        /\ my = [t \in Threads |-> 0]
        /\ req = [t \in Threads |-> [kind |-> "plain", want |-> 0, raw |-> 0]]
        /\ left = [t \in Threads |-> NReq]
        /\ handed = {}
        /\ resets = 0 /\ trims = 0 /\ needReset = FALSE
        /\ ereqs = <<>> /\ eseq = TRUE
        /\ prev = [ok |-> FALSE, reqs |-> <<>>, alloc |-> 0]

Start(t, k, sz) ==
  /\ pc[t] = "idle" /\ left[t] > 0 /\ ~needReset
  /\ Raw(k, sz) <= MaxAlloc                      \* larger requests panic by contract
  /\ req' = [req EXCEPT ![t] = [kind |-> k, want |-> sz, raw |-> Raw(k, sz)]]
  /\ left' = [left EXCEPT ![t] = @ - 1]
  /\ pc' = [pc EXCEPT ![t] = "add"]
  /\ ereqs' = IF TrackReplay THEN Append(ereqs, <<k, sz>>) ELSE ereqs
  /\ eseq' = (eseq /\ Quiescent)
  /\ UNCHANGED <<comp, chunks, cbase, mutex, my, handed, resets, trims, needReset, prev>>

Add(t) ==                                         \* atomic.AddUint64(&a.compIdx, uint64(sz))
  /\ pc[t] = "add"
  /\ comp' = comp + req[t].raw
  /\ my' = [my EXCEPT ![t] = comp + req[t].raw]
  /\ pc' = [pc EXCEPT ![t] = "test"]
  /\ UNCHANGED <<chunks, cbase, mutex, req, left, handed, resets, trims, needReset, ereqs, eseq, prev>>

Over(t) == Pi(my[t]) > chunks[Bi(my[t])]          \* posIdx > len(buf)

Region(t) ==
  LET ci  == Bi(my[t])
      rhi == Pi(my[t])
      rlo == rhi - req[t].raw
      st  == IF req[t].kind = "aligned" THEN (A - ((cbase[ci] + rlo) % A)) % A ELSE 0
  IN [ci |-> ci, lo |-> rlo + st, hi |-> rlo + st + req[t].want, rlo |-> rlo, rhi |-> rhi,
      t |-> t, n |-> left[t], kind |-> req[t].kind, want |-> req[t].want]

Return(t) ==
  /\ pc[t] = "test" /\ Assert(Bi(my[t]) < MaxChunks, "chunk table exhausted (model bound)") /\ ~Over(t)
  /\ handed' = handed \cup {Region(t)}
  /\ pc' = [pc EXCEPT ![t] = "idle"]
  /\ UNCHANGED <<comp, chunks, cbase, mutex, my, req, left, resets, trims, needReset, ereqs, eseq, prev>>

Lock(t) ==
  /\ pc[t] = "test" /\ Assert(Bi(my[t]) < MaxChunks, "chunk table exhausted (model bound)") /\ Over(t)
  /\ mutex = NoThread /\ mutex' = t
  /\ pc' = [pc EXCEPT ![t] = "decide"]
  /\ UNCHANGED <<comp, chunks, cbase, my, req, left, handed, resets, trims, needReset, ereqs, eseq, prev>>

\* addBufferAt's scan: <<index, TRUE>> = first empty slot, <<index, FALSE>> = existing chunk that fits
RECURSIVE Find(_, _, _)
Find(ch, i, minSz) ==
  IF i >= MaxChunks THEN <<i, FALSE>>
  ELSE IF ch[i] = 0 THEN <<i, TRUE>>
  ELSE IF minSz <= ch[i] THEN <<i, FALSE>>
  ELSE Find(ch, i + 1, minSz)
RECURSIVE Dbl(_, _)
Dbl(p, minSz) == IF p < minSz THEN Dbl(2 * p, minSz) ELSE p
PageSize(prevLen, minSz) == Min(Dbl(2 * prevLen, minSz), MaxAlloc)

Decide(t) ==
  /\ pc[t] = "decide"
  /\ IF Bi(comp) # Bi(my[t])
       THEN /\ mutex' = NoThread /\ pc' = [pc EXCEPT ![t] = "add"]          \* retry
            /\ UNCHANGED <<comp, chunks, cbase>>
       ELSE LET f == Find(chunks, Bi(my[t]) + 1, req[t].raw) IN
            /\ Assert(f[1] < MaxChunks, "chunk table exhausted (model bound)")
            /\ IF f[2] /\ chunks[f[1] - 1] = 0
                 THEN /\ pc' = [pc EXCEPT ![t] = "spin"]                      \* for pageSize < minSz { pageSize *= 2 } with pageSize = 0
                      /\ UNCHANGED <<comp, chunks, cbase, mutex>>
                 ELSE /\ IF f[2]
                           THEN /\ chunks' = [chunks EXCEPT ![f[1]] = PageSize(chunks[f[1] - 1], req[t].raw)]
                                /\ \E b \in BaseMods : cbase' = [cbase EXCEPT ![f[1]] = b]
                           ELSE UNCHANGED <<chunks, cbase>>
                      /\ comp' = (Bi(my[t]) + 1) * PosBase                    \* publish
                      /\ mutex' = NoThread /\ pc' = [pc EXCEPT ![t] = "add"]
  /\ UNCHANGED <<my, req, left, handed, resets, trims, needReset, ereqs, eseq, prev>>

Reset ==
  /\ Quiescent /\ resets < MaxResets
  /\ comp' = 0 /\ handed' = {} /\ needReset' = FALSE /\ resets' = resets + 1
  /\ left' = [t \in Threads |-> NReq]
  /\ prev' = [ok |-> TrackReplay /\ eseq, reqs |-> ereqs, alloc |-> Allocated(chunks)]
  /\ ereqs' = <<>> /\ eseq' = TRUE
  /\ UNCHANGED <<chunks, cbase, mutex, pc, my, req, trims>>

\* TrimTo(max): walk the non-empty prefix, free every chunk from the one where the running total
\* reaches max
FirstEmpty == CHOOSE k \in 0..MaxChunks : (k = MaxChunks \/ chunks[k] = 0) /\ \A j \in 0..(k - 1) : chunks[j] # 0
Freed(max) == {i \in 0..(FirstEmpty - 1) : SumTo(chunks, i) >= max /\ ~(FixTrimKeepFirst /\ i = 0)}

Trim(max) ==
  /\ Quiescent /\ trims < MaxTrims /\ ~needReset
  /\ trims' = trims + 1
  /\ chunks' = [i \in Idx |-> IF i \in Freed(max) THEN 0 ELSE chunks[i]]
  /\ handed' = {h \in handed : h.ci \notin Freed(max)}        \* freed memory is given up by the caller
  /\ needReset' = \E i \in Freed(max) : i <= Bi(comp)
  /\ prev' = [prev EXCEPT !.ok = FALSE]       \* memory was given back: neither the previous epoch nor this
  /\ eseq' = FALSE                            \* one is a reference for "replay acquires no more memory"
  /\ UNCHANGED <<comp, cbase, mutex, pc, my, req, left, resets, ereqs>>

ThreadStep(t) == Add(t) \/ Return(t) \/ Lock(t) \/ Decide(t)
Next == \/ \E t \in Threads : (\E k \in Kinds, sz \in Sizes : Start(t, k, sz)) \/ ThreadStep(t)
        \/ Reset
        \/ \E m \in TrimMaxes : Trim(m)

Spec == Init /\ [][Next]_vars
FairSpec == Spec /\ \A t \in Threads : WF_vars(ThreadStep(t))

(* ------------------------------ properties (C12) ------------------------------ *)
TypeOK == /\ comp \in Nat /\ mutex \in Threads \cup {NoThread}
          /\ \A t \in Threads : pc[t] \in {"idle", "add", "test", "decide", "spin"}
Disjoint == \A a, b \in handed : a # b => (a.ci # b.ci \/ a.hi <= b.lo \/ b.hi <= a.lo)
InChunk  == \A a \in handed : a.ci \in Idx /\ 0 <= a.lo /\ a.hi <= chunks[a.ci] /\ a.rlo <= a.lo /\ a.hi <= a.rhi
ExactLen == \A a \in handed : a.hi - a.lo = a.want /\ a.want > 0
AlignedOK == \A a \in handed : a.kind = "aligned" => (cbase[a.ci] + a.lo) % A = 0
MutexOK  == \A t \in Threads : (pc[t] \in {"decide", "spin"}) <=> (mutex = t)
NoSpin   == \A t \in Threads : pc[t] # "spin"                    \* every call returns (safety part)
\* chunk lengths and bases never change once the chunk exists (only TrimTo removes chunks)
Stable   == [][(trims' = trims) =>
                 \A i \in Idx : chunks[i] # 0 => (chunks'[i] = chunks[i] /\ cbase'[i] = cbase[i])]_vars
\* Reset + the same requests in the same order => no more memory is acquired
ReplaySame == (prev.ok /\ eseq /\ IsPrefix(ereqs, prev.reqs)) => Allocated(chunks) = prev.alloc
\* liveness (tiny configuration only): every call returns
Terminates == \A t \in Threads : (pc[t] # "idle") ~> (pc[t] = "idle")

Symm == Permutations(Threads)
=============================================================================
