\* Long histories of the abstract map (operation sequences only) for replay on the real tree.
SPECIFICATION MSpec
CONSTANTS
  NKeys = 24
  NVals = 4
  MaxOps = 80
INVARIANTS MTypeOK
CHECK_DEADLOCK FALSE
