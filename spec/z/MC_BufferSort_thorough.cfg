SPECIFICATION Spec
CONSTANTS
  ChunkN = 2
  MaxLen = 11
  Keys = {0, 1, 2}
INVARIANTS SortedPermutation
