------------------------------- MODULE TreeOps -------------------------------
(* Pure operators of the page-level model of z.Tree (z/btree.go); see TreePages.tla.

   A tree is a record
     [pages, link, nextPage, freePage, nLeafKeys, nPagesFree, dataLen, capLen, err, mk, ps, absmax]
   pages[pid] = [leaf, keys, vals, pid] with 1-based sequences keys / vals (numKeys = Len(keys)); the
   pid field is the page-id word of the page (0 = never initialised, which is how reinit finds the
   allocation frontier); link[pid] is word 0 of a page on the free list; dataLen / capLen are
   len(t.data) / cap(t.data) in bytes; mk = maxKeys, ps = pageSize, absmax = id of the key 2^64-2.
   Operators that the Go code implements by mutation take a tree and return a tree.            *)
EXTENDS Integers, Sequences, FiniteSets

CONSTANTS FixStaleMax, FixReinitBound

Blank == [leaf |-> FALSE, keys |-> <<>>, vals |-> <<>>, pid |-> 0]
T0(mk, ps, absmax, maxpid) ==
      [pages |-> [p \in 1..maxpid |-> Blank], link |-> [p \in 1..maxpid |-> 0],
       nextPage |-> 1, freePage |-> 0, nLeafKeys |-> 0, nPagesFree |-> 0,
       dataLen |-> 0, capLen |-> 0, err |-> "none", mk |-> mk, ps |-> ps, absmax |-> absmax]

Fail(t, why) == IF t.err = "none" THEN [t EXCEPT !.err = why] ELSE t

(* ------------------------------ node helpers (1-based) ------------------------------ *)
NumKeys(n) == Len(n.keys)
MaxKeyOf(n) == IF Len(n.keys) = 0 THEN 0 ELSE n.keys[Len(n.keys)]
\* node.search: index of the smallest key >= k, numKeys+1 if there is none
Search(n, k) == LET idxs == {i \in 1..Len(n.keys) : n.keys[i] >= k}
                IN IF idxs = {} THEN Len(n.keys) + 1 ELSE CHOOSE i \in idxs : \A j \in idxs : i <= j
InsertAt(s, i, x) == SubSeq(s, 1, i - 1) \o <<x>> \o SubSeq(s, i, Len(s))
\* node.set(k, v): returns <<node', numAdded>>
NodeSet(n, k, v) ==
  LET idx == Search(n, k) IN
  IF idx <= Len(n.keys) /\ n.keys[idx] = k
    THEN <<[n EXCEPT !.vals[idx] = v], 0>>
    ELSE <<[n EXCEPT !.keys = InsertAt(n.keys, idx, k), !.vals = InsertAt(n.vals, idx, v)], 1>>
NodeGet(n, k) == LET idx == Search(n, k) IN
                 IF idx <= Len(n.keys) /\ n.keys[idx] = k THEN n.vals[idx] ELSE 0
\* node.compact(lo): drops the entries with value < lo except the max key; returns <<node', ret>>,
\* ret = 0 tells the caller that only the max key is left and its value is below lo
NodeCompact(n, lo) ==
  LET mk == MaxKeyOf(n)
      keepIdx == {i \in 1..Len(n.keys) : ~(n.vals[i] < lo /\ n.keys[i] < mk)}
      RECURSIVE Pick(_, _)
      Pick(i, acc) == IF i > Len(n.keys) THEN acc
                      ELSE IF i \in keepIdx
                             THEN Pick(i + 1, [k |-> Append(acc.k, n.keys[i]),
                                               v |-> Append(acc.v, IF FixStaleMax /\ n.keys[i] = mk /\ n.vals[i] < lo
                                                                     THEN 0 ELSE n.vals[i])])
                             ELSE Pick(i + 1, acc)
      r == Pick(1, [k |-> <<>>, v |-> <<>>])
      n2 == [n EXCEPT !.keys = r.k, !.vals = r.v]
      ret == IF Len(r.k) = 1 /\ r.k[1] = mk /\ n.vals[Len(n.keys)] < lo THEN 0 ELSE Len(r.k)
  IN <<n2, ret>>

(* ------------------------------ Tree.newNode / split / set / Set ------------------------------ *)
NewNode(t, isLeaf) ==   \* returns <<t', pid>>
  IF t.freePage > 0
    THEN LET pid == t.freePage IN
         <<[t EXCEPT !.freePage = t.link[pid], !.nPagesFree = @ - 1, !.link[pid] = 0,
                     !.pages[pid] = [leaf |-> isLeaf, keys |-> <<>>, vals |-> <<>>, pid |-> pid]], pid>>
    ELSE LET pid == t.nextPage
             req == (pid + 1) * t.ps
             \* Buffer.AllocateOffset(req - len): Grow is a no-op while offset + n < curSz
             grown == IF req > t.dataLen
                        THEN [t EXCEPT !.dataLen = req,
                                       !.capLen = IF req < t.capLen THEN t.capLen
                                                  ELSE 2 * t.capLen + 8 + (req - t.dataLen)]
                        ELSE t
         IN <<[grown EXCEPT !.nextPage = pid + 1,
                            !.pages[pid] = [leaf |-> isLeaf, keys |-> <<>>, vals |-> <<>>, pid |-> pid]], pid>>

Split(t, pid) ==        \* returns <<t', newPid>>
  LET r == NewNode(t, t.pages[pid].leaf)
      t1 == r[1]  nn == r[2]
      n == t1.pages[pid]
      h == t.mk \div 2
  IN <<[t1 EXCEPT !.pages[nn].keys = SubSeq(n.keys, h + 1, t.mk), !.pages[nn].vals = SubSeq(n.vals, h + 1, t.mk),
                  !.pages[pid].keys = SubSeq(n.keys, 1, h), !.pages[pid].vals = SubSeq(n.vals, 1, h)], nn>>

RECURSIVE SetRec(_, _, _, _)
SetRec(t, pid, k, v) ==
  LET n == t.pages[pid] IN
  IF n.leaf
    THEN LET r == NodeSet(n, k, v) IN
         IF Len(r[1].keys) > t.mk THEN Fail(t, "assert_moveRight_full")
         ELSE [t EXCEPT !.pages[pid] = r[1], !.nLeafKeys = @ + r[2]]
    ELSE
      LET idx == Search(n, k) IN
      IF idx > t.mk THEN Fail(t, "search_index_ge_maxKeys") ELSE
      LET \* no key >= k: append k with a nil child
          t1 == IF idx > Len(n.keys)
                  THEN [t EXCEPT !.pages[pid].keys = Append(n.keys, k), !.pages[pid].vals = Append(n.vals, 0)]
                  ELSE t
          cid0 == t1.pages[pid].vals[idx]
          r == IF cid0 = 0 THEN NewNode(t1, TRUE) ELSE <<t1, cid0>>
          cid == r[2]
          t2 == [r[1] EXCEPT !.pages[pid].vals[idx] = cid]
          t3 == SetRec(t2, cid, k, v)
      IN IF t3.err # "none" THEN t3
         ELSE IF Len(t3.pages[cid].keys) = t.mk
           THEN LET s == Split(t3, cid)
                    t4 == s[1]  nn == s[2]
                    a == NodeSet(t4.pages[pid], MaxKeyOf(t4.pages[cid]), cid)[1]
                    b == NodeSet(a, MaxKeyOf(t4.pages[nn]), nn)[1]
                IN IF Len(b.keys) > t.mk THEN Fail(t4, "assert_set_on_full_node")
                   ELSE [t4 EXCEPT !.pages[pid] = b]
           ELSE t3

TreeSet(t, k, v) ==
  LET t1 == SetRec(t, 1, k, v) IN
  IF t1.err # "none" THEN t1
  ELSE IF Len(t1.pages[1].keys) = t.mk
    THEN LET s == Split(t1, 1)
             t2 == s[1]  right == s[2]
             l == NewNode(t2, t2.pages[1].leaf)
             t3 == l[1]  left == l[2]
             t4 == [t3 EXCEPT !.pages[left].keys = t3.pages[1].keys, !.pages[left].vals = t3.pages[1].vals,
                              !.pages[1].keys = <<>>, !.pages[1].vals = <<>>]
             a == NodeSet(t4.pages[1], MaxKeyOf(t4.pages[left]), left)[1]
             b == NodeSet(a, MaxKeyOf(t4.pages[right]), right)[1]
         IN [t4 EXCEPT !.pages[1] = b]
    ELSE t1

(* ------------------------------ Tree.Get ------------------------------ *)
RECURSIVE GetRec(_, _, _)
GetRec(t, pid, k) ==
  LET n == t.pages[pid] IN
  IF n.leaf THEN NodeGet(n, k)
  ELSE LET idx == Search(n, k) IN
       IF idx > Len(n.keys) THEN 0
       ELSE IF n.vals[idx] = 0 THEN -1          \* assert(child != nil) would fire
       ELSE GetRec(t, n.vals[idx], k)
TreeGet(t, k) == GetRec(t, 1, k)

(* ------------------------------ Tree.DeleteBelow / compact ------------------------------ *)
RECURSIVE CompactRec(_, _, _)
RECURSIVE CompactKids(_, _, _, _)
CompactKids(t, pid, i, ts) ==
  LET n == t.pages[pid]  N == Len(n.keys) IN
  IF i > N THEN t
  ELSE LET cid == n.vals[i] IN
       IF cid = 0 THEN Fail(t, "nil_child_in_compact") ELSE
       LET r == CompactRec(t, cid, ts)
           t1 == r[1]
           \* an emptied child is put on the free list unless it is the node's last child
           t2 == IF r[2] = 0 /\ i < N
                   THEN [t1 EXCEPT !.nLeafKeys = @ - Len(t1.pages[cid].keys),
                                   !.link[cid] = t1.freePage, !.freePage = cid,
                                   !.pages[pid].vals[i] = 0, !.nPagesFree = @ + 1]
                   ELSE t1
       IN CompactKids(t2, pid, i + 1, ts)
CompactRec(t, pid, ts) ==   \* returns <<t', ret>>
  LET n == t.pages[pid] IN
  IF n.leaf
    THEN LET r == NodeCompact(n, ts) IN
         <<[t EXCEPT !.pages[pid] = r[1], !.nLeafKeys = @ + Len(r[1].keys)], r[2]>>
    ELSE LET t1 == CompactKids(t, pid, 1, ts)
             r == NodeCompact(t1.pages[pid], 1)      \* drops the entries whose child was freed
         IN <<[t1 EXCEPT !.pages[pid] = r[1]], r[2]>>
TreeDeleteBelow(t, ts) == CompactRec([t EXCEPT !.nLeafKeys = 0], 1, ts)[1]

(* ------------------------------ Tree.Iterate / IterateKV ------------------------------ *)
\* leaf pages in the order Tree.iterate reaches them
RECURSIVE LeafSeq(_, _)
LeafSeq(t, pid) ==
  LET n == t.pages[pid]
      RECURSIVE Cat(_)
      Cat(i) == IF i > Len(n.keys) THEN <<>>
                ELSE (IF n.vals[i] = 0 THEN <<>> ELSE LeafSeq(t, n.vals[i])) \o Cat(i + 1)
  IN IF n.leaf THEN <<pid>> ELSE Cat(1)
\* the <<key, value>> pairs IterateKV hands to its callback, in order (zero values are skipped)
Visited(t) ==
  LET ls == LeafSeq(t, 1)
      RECURSIVE OfLeaf(_, _)
      OfLeaf(n, i) == IF i > Len(n.keys) THEN <<>>
                      ELSE (IF n.vals[i] = 0 THEN <<>> ELSE << <<n.keys[i], n.vals[i]>> >>) \o OfLeaf(n, i + 1)
      RECURSIVE All(_)
      All(j) == IF j > Len(ls) THEN <<>> ELSE OfLeaf(t.pages[ls[j]], 1) \o All(j + 1)
  IN All(1)
\* IterateKV(F): a non-zero F(key, val) overwrites the value in place
TreeIterateKV(t, F(_, _)) ==
  LET ls == LeafSeq(t, 1)
      leaves == {ls[j] : j \in 1..Len(ls)}
      Upd(n) == [n EXCEPT !.vals = [i \in 1..Len(n.vals) |->
                   IF n.vals[i] # 0 /\ F(n.keys[i], n.vals[i]) # 0 THEN F(n.keys[i], n.vals[i]) ELSE n.vals[i]]]
  IN [t EXCEPT !.pages = [p \in DOMAIN t.pages |-> IF p \in leaves THEN Upd(t.pages[p]) ELSE t.pages[p]]]

\* pages reachable from pid (Tree.Iterate), as a set and counted with multiplicity
RECURSIVE Reach(_, _)
Reach(t, pid) == LET n == t.pages[pid] IN
                 IF n.leaf THEN {pid}
                 ELSE {pid} \cup UNION {Reach(t, n.vals[i]) : i \in {j \in 1..Len(n.keys) : n.vals[j] # 0}}
RECURSIVE ReachCount(_, _)
ReachCount(t, pid) ==
  LET n == t.pages[pid]
      RECURSIVE Sum(_)
      Sum(i) == IF i > Len(n.keys) THEN 0
                ELSE (IF n.vals[i] = 0 THEN 0 ELSE ReachCount(t, n.vals[i])) + Sum(i + 1)
  IN IF n.leaf THEN 1 ELSE 1 + Sum(1)
RECURSIVE LeafKeySum(_, _)
LeafKeySum(t, S) == IF S = {} THEN 0
                    ELSE LET x == CHOOSE y \in S : TRUE IN
                         (IF t.pages[x].leaf THEN Len(t.pages[x].keys) ELSE 0) + LeafKeySum(t, S \ {x})
\* the free list as a set (bounded walk, so a cyclic list terminates)
FreeListSet(t) ==
  LET RECURSIVE Walk(_, _)
      Walk(p, n) == IF p = 0 \/ n = 0 THEN {} ELSE {p} \cup Walk(t.link[p], n - 1)
  IN Walk(t.freePage, t.nextPage)

(* ------------------------------ structure ------------------------------ *)
WellFormed(t) ==
  \A p \in Reach(t, 1) :
    LET n == t.pages[p] IN
    /\ n.pid = p
    /\ Len(n.keys) >= 1 /\ Len(n.keys) < t.mk /\ Len(n.vals) = Len(n.keys)
    /\ \A i \in 1..(Len(n.keys) - 1) : n.keys[i] < n.keys[i + 1]
    /\ ~n.leaf => \A i \in 1..Len(n.keys) :
                    /\ n.vals[i] # 0
                    /\ MaxKeyOf(t.pages[n.vals[i]]) = n.keys[i]          \* routing key = child's max key
                    /\ i > 1 => t.pages[n.vals[i]].keys[1] > n.keys[i - 1]
    /\ p = 1 => (~n.leaf /\ MaxKeyOf(n) = t.absmax)

(* ------------------------------ Reset, constructors, reinit ------------------------------ *)
InitRoot(t) == TreeSet(NewNode(t, FALSE)[1], t.absmax, 0)    \* newNode(0); Set(absoluteMax, 0)

\* Tree.Reset: Memclr, Buffer.Reset (offset = 8), AllocateOffset(minSize), fresh root
TreeReset(t, minSize) ==
  InitRoot([t EXCEPT !.pages = [p \in DOMAIN t.pages |-> Blank], !.link = [p \in DOMAIN t.link |-> 0],
                     !.nextPage = 1, !.freePage = 0, !.nLeafKeys = 0, !.nPagesFree = 0,
                     !.dataLen = minSize,
                     !.capLen = IF minSize < t.capLen THEN t.capLen ELSE 2 * t.capLen + 8 + minSize])
\* NewTree: NewBuffer(minSize) has curSz = minSize, i.e. cap(data) = minSize - 8; then Reset
NewInMemory(t0, minSize) == TreeReset([t0 EXCEPT !.capLen = minSize - 8], minSize)
\* NewTreePersistent on a new file of minSize bytes: t.data is the whole file minus the padding
NewPersistent(t0, minSize) == InitRoot([t0 EXCEPT !.dataLen = minSize - 8, !.capLen = minSize - 8])

\* reinit: rebuild nextPage / freePage / stats from the page array
Reinit(t) ==
  LET RECURSIVE Scan(_)
      \* returns <<nextPage, err>>; t.node(p) slices data[p*ps : (p+1)*ps], legal only within cap
      Scan(p) == IF p * t.ps < t.dataLen
                   THEN IF FixReinitBound /\ (p + 1) * t.ps > t.dataLen THEN <<p, "none">>
                        ELSE IF (p + 1) * t.ps > t.capLen THEN <<p, "slice_bounds_out_of_range_in_reinit">>
                        ELSE IF t.pages[p].pid = 0 THEN <<p, "none">> ELSE Scan(p + 1)
                   ELSE <<p, "none">>
      sc == Scan(1)
      np == sc[1]
      reach == Reach(t, 1)
      nonTree == {p \in 1..(np - 1) : p \notin reach}
      pointed == {t.link[p] : p \in nonTree} \ {0}
      heads == nonTree \ pointed
  IN [nextPage |-> np, err |-> sc[2],
      freePage |-> IF heads = {} THEN 0 ELSE CHOOSE h \in heads : \A g \in heads : h <= g,
      nLeafKeys |-> LeafKeySum(t, reach), nPagesFree |-> Cardinality(nonTree)]

\* clean Close + NewTreePersistent on the same file: offset = len(buf), so t.data spans the whole file
TreeReopen(t) ==
  LET t0 == [t EXCEPT !.dataLen = t.capLen]
      r == Reinit(t0)
  IN [t0 EXCEPT !.nextPage = r.nextPage, !.freePage = r.freePage, !.nLeafKeys = r.nLeafKeys,
                !.nPagesFree = r.nPagesFree, !.err = r.err]
=============================================================================
