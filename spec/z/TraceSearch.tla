----------------------------- MODULE TraceSearch -----------------------------
(* Trace specification for simd.Search: consumes trace.ndjson recorded from the real code by
   harness/z/search_test.go.txt.

     bad   - the recorded history violates property C20 as stated: a Search (or reference Naive)
             result that is not the index of the first key >= k computed here from the logged array,
             a result that differs between two calls that differ only in the memory beyond the
             slice, a memory fault or a panic of Search.
     drift - the result differs from the design model of the kernel (Search.tla, FixTail as
             configured): reported, never a violation.

   All numbers are ordinal ids (order-preserving embedding into uint64 done by the harness).

   Events:
     {ev:"New", t, n, xs}                         new array (n = len(xs), keys at even positions)
     {ev:"Search", mode, k, tail, res, naive}     tail = the first words of memory after the slice
                                                  ("embed" mode: 8 words; "guard" mode: none readable)
     {ev:"CaseBegin", ...}                        announcement of a guard-page call (no effect)
     {ev:"Fault", fn, mode, k, tail}              the call faulted on a memory access
     {ev:"Panic", fn, mode, k, tail}              the call panicked otherwise
     {ev:"Race", fn, detail}                      `go test -race` reported a data race whose stack is in Search
   "conc" mode: calls made by several goroutines at the same time, each on its own private arrays
   (one trace per goroutine and array); they are judged exactly like sequential calls.

   Classification of a rejected Search/Fault (the `why` is what known_findings.json signatures are
   matched against): when len(xs) is not a positive multiple of 8, no key of xs is >= k, and the
   observed result is exactly what the 4-keys-per-trip kernel without a tail check computes on the
   logged memory (or that kernel would read the guard page), the reason is F1Why / F1Why0; every
   other rejection has a different reason.                                                      *)
EXTENDS Naturals, Integers, FiniteSets, Sequences, TLC, Json

CONSTANT FixTail     \* design model to compare with (drift only); FALSE = code as it is

Trace == ndJsonDeserialize("trace.ndjson")

VARIABLES l, tid, n, xs, asc, curK, curRes, bad, drift
vars == <<l, tid, n, xs, asc, curK, curRes, bad, drift>>

F1Why  == "Search result depends on memory beyond len(xs) when len(xs) % 8 != 0"
F1Why0 == "Search result depends on memory beyond len(xs) when len(xs) = 0 (xs[0], xs[2], xs[4], xs[6] are compared before the length is looked at)"
WrongWhy == "Search result differs from the index of the first key >= k"
DepWhy == "Search result changed when only the memory beyond len(xs) changed"

Flag(cond, why) == IF cond THEN {} ELSE {[at |-> l, trace |-> tid, why |-> why]}

\* the property's own definition: index of the first key >= k (keys at even positions), or n/2.
\* `asc` (computed once per array) says that the logged keys ascend - the arrays C20 speaks about;
\* then the least index with key >= k is found by bisection, otherwise by the linear scan.
RECURSIVE First(_, _)
First(i, k) == IF 2 * i >= n THEN n \div 2 ELSE IF xs[2 * i + 1] >= k THEN i ELSE First(i + 1, k)
RECURSIVE Bisect(_, _, _)
Bisect(lo, hi, k) ==      \* keys with index < lo are < k, keys with index >= hi are >= k
  IF lo >= hi THEN lo
  ELSE LET mid == (lo + hi) \div 2 IN
       IF xs[2 * mid + 1] >= k THEN Bisect(lo, mid, k) ELSE Bisect(mid + 1, hi, k)
Expected(k) == IF asc THEN Bisect(0, n \div 2, k) ELSE First(0, k)
Ascending(a) == \A i \in 1..((Len(a) \div 2) - 1) : a[2 * i - 1] <= a[2 * i + 1]

\* the design model of the kernel on the logged memory, in the closed form that Search.tla proves
\* equal to the trip-by-trip kernel (invariant ClosedFormOK): a key >= k inside the slice is found
\* first; otherwise the code as it is (fix = FALSE) goes on through the key slots up to the end of
\* the 8-word group.  A word that was not logged (guard page) is unreadable: fault.
Word(pos, tail) == IF pos < n THEN xs[pos + 1] ELSE IF pos - n < Len(tail) THEN tail[pos - n + 1] ELSE -1
RoundUp8 == IF n = 0 THEN 8 ELSE ((n + 7) \div 8) * 8
RECURSIVE Over(_, _, _)
Over(pos, k, tail) ==
  IF pos >= RoundUp8 THEN [res |-> n \div 2, fault |-> FALSE]
  ELSE IF Word(pos, tail) = -1 THEN [res |-> -1, fault |-> TRUE]
  ELSE IF Word(pos, tail) >= k THEN [res |-> pos \div 2, fault |-> FALSE]
  ELSE Over(pos + 2, k, tail)
Kern(fix, exp, k, tail) ==
  IF exp < n \div 2 \/ fix \/ (n % 8 = 0 /\ n > 0) THEN [res |-> exp, fault |-> FALSE]
  ELSE Over(n, k, tail)

Unaligned == n % 8 # 0 \/ n = 0
\* results the untested tail can produce when no key of xs is >= k
FeasibleF1 == (n \div 2)..((RoundUp8 - 2) \div 2)
F1Reason == IF n = 0 THEN F1Why0 ELSE F1Why

Init == l = 1 /\ tid = 0 /\ n = 0 /\ xs = <<>> /\ asc = TRUE /\ curK = -1 /\ curRes = {} /\ bad = {} /\ drift = {}

Step(e) ==
  CASE e.ev = "New" ->
         /\ Assert(e.n = Len(e.xs), <<"New: n differs from the logged array", l>>)
         /\ tid' = e.t /\ n' = e.n /\ xs' = e.xs /\ asc' = Ascending(e.xs) /\ curK' = -1 /\ curRes' = {}
         /\ UNCHANGED <<bad, drift>>
    [] e.ev = "CaseBegin" ->
         UNCHANGED <<tid, n, xs, asc, curK, curRes, bad, drift>>
    [] e.ev = "Search" ->
         LET exp   == Expected(e.k)
             asis  == Kern(FALSE, exp, e.k, e.tail)
             model == IF FixTail THEN Kern(TRUE, exp, e.k, e.tail) ELSE asis
             none  == exp = n \div 2          \* no key of xs is >= k
             prior == IF curK = e.k THEN curRes ELSE {}
             f1    == Unaligned /\ none /\ ~asis.fault /\ asis.res = e.res
         IN
         /\ bad' = bad \cup Flag(e.naive = exp, "Naive (the reference) differs from the index of the first key >= k")
                       \cup Flag(e.res = exp, IF f1 THEN F1Reason ELSE WrongWhy)
                       \cup Flag(prior = {} \/ e.res \in prior,
                                 IF Unaligned /\ none /\ (prior \cup {e.res}) \subseteq FeasibleF1
                                   THEN F1Reason ELSE DepWhy)
         /\ drift' = drift \cup Flag(~model.fault /\ model.res = e.res,
                                     "Search result differs from the design model of the kernel")
         /\ curK' = e.k /\ curRes' = prior \cup {e.res}
         /\ UNCHANGED <<tid, n, xs, asc>>
    [] e.ev = "Fault" ->
         LET exp   == Expected(e.k)
             asis  == Kern(FALSE, exp, e.k, e.tail)
             model == IF FixTail THEN Kern(TRUE, exp, e.k, e.tail) ELSE asis
             none  == exp = n \div 2
         IN
         /\ bad' = bad \cup Flag(FALSE, IF e.fn = "Search" /\ Unaligned /\ none /\ asis.fault
                                          THEN F1Reason
                                          ELSE "memory fault in " \o e.fn)
         /\ drift' = drift \cup Flag(e.fn = "Search" /\ model.fault, "fault not predicted by the design model of the kernel")
         /\ UNCHANGED <<tid, n, xs, asc, curK, curRes>>
    [] e.ev = "Race" ->      \* the race detector reported a data race inside Search (appended by the check)
         /\ bad' = bad \cup Flag(FALSE, "Search is not a pure function of xs: data race")
         /\ UNCHANGED <<tid, n, xs, asc, curK, curRes, drift>>
    [] e.ev = "Panic" ->
         /\ bad' = bad \cup Flag(FALSE, "panic in " \o e.fn)
         /\ UNCHANGED <<tid, n, xs, asc, curK, curRes, drift>>

Next == /\ l <= Len(Trace)
        /\ l' = l + 1
        /\ Step(Trace[l])

Spec == Init /\ [][Next]_vars

Report == (l = Len(Trace) + 1) => PrintT(<<"OBS-RESULT", bad, drift>>)
=============================================================================
