SPECIFICATION Spec
CONSTANTS
  Size = 8
  Locs = 2
  MaxOps = 3
INVARIANTS NoFalseNegative HasReplyOK ClearEmpties
PROPERTIES AddIfNotHasOK RoundTripOK Monotone
