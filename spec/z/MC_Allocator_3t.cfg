\* thorough: 3 threads x 2 requests, sizes {1, c, c+1}
SPECIFICATION Spec
CONSTANTS
  Threads = {t1, t2, t3}
  Sizes = {1, 4, 5}
  Kinds = {"plain"}
  C0 = 4
  MaxAlloc = 16
  MaxChunks = 12
  NReq = 2
  MaxResets = 0
  TrimMaxes = {}
  MaxTrims = 0
  PosBase = 1024
  AlignM1 = 7
  BaseMods = {0}
  FixTrimKeepFirst = FALSE
  TrackReplay = FALSE
SYMMETRY Symm
INVARIANTS TypeOK Disjoint InChunk ExactLen AlignedOK MutexOK NoSpin ReplaySame
PROPERTIES Stable
