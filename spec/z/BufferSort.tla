----------------------------- MODULE BufferSort -----------------------------
(* Implementation-shaped model of z.Buffer.SortSliceBetween (z/buffer.go):

     offsets: the offset of every ChunkN-th slice (count % 1024 == 0 in the code), then `end`
     sortSmall(left, off) for every chunk: sort.Slice on the chunk's slices (NOT stable: any sorted
       arrangement may come out), rewritten in place through the scratch buffer
     sort(lo, hi) over the offsets:  mid := lo + (hi-lo)/2;  if lo == mid { return buf[off[lo]:off[hi]] }
       left := sort(lo, mid); right := sort(mid, hi); merge(left, right)
     merge: left is copied to the scratch buffer, then
       for { if left empty: copy rest of right; if right empty: copy rest of left;
             if less(ls, rs) { take left } else { take right } }        -- ties take RIGHT first

   ChunkN is 1024 in the code (a literal); with ChunkN = 2 TLC enumerates every merge-tree shape for
   up to MaxLen slices and every key assignment.  A slice is <<index, key>>; less compares keys.
   The harness scales an input of this model (a key sequence) to real slice counts:
   model chunk c becomes 1024 real slices (the last one 1, 1023 or 1024), whose keys follow the
   model keys of the chunk's two halves.                                                     *)
EXTENDS Integers, Sequences, FiniteSets, TLC

CONSTANTS ChunkN, MaxLen, Keys

VARIABLES inp,    \* the keys of the slices in the range, in buffer order
          out,    \* the slices after the sort
          done

vars == <<inp, out, done>>

Items(s) == [i \in DOMAIN s |-> <<i, s[i]>>]
LessI(a, b) == a[2] < b[2]
SortedSeq(q) == \A x \in 1..(Len(q) - 1) : ~LessI(q[x + 1], q[x])
ToSet(q) == {q[i] : i \in DOMAIN q}
IsPermOf(a, b) == Len(a) = Len(b) /\ ToSet(a) = ToSet(b)       \* items are pairwise distinct (index)

\* number of chunks for m slices: offsets = every ChunkN-th slice, then `end`
NChunks(m) == (m + ChunkN - 1) \div ChunkN
Chunk(items, c) == SubSeq(items, c * ChunkN + 1, IF (c + 1) * ChunkN < Len(items) THEN (c + 1) * ChunkN ELSE Len(items))

\* sort.Slice on one chunk: every sorted arrangement
SmallResults(ch) ==
  LET S == DOMAIN ch
      Re(p) == [x \in S |-> ch[p[x]]]
  IN {Re(p) : p \in {q \in Permutations(S) : SortedSeq(Re(q))}}

\* all outcomes of the sortSmall loop: a sequence of sorted chunks
RECURSIVE ChunkOutcomes(_, _)
ChunkOutcomes(items, c) ==
  IF c = NChunks(Len(items)) THEN {<<>>}
  ELSE {<<h>> \o t : h \in SmallResults(Chunk(items, c)), t \in ChunkOutcomes(items, c + 1)}

RECURSIVE Merge(_, _)
Merge(L, R) ==
  IF L = <<>> THEN R
  ELSE IF R = <<>> THEN L
  ELSE IF LessI(Head(L), Head(R)) THEN <<Head(L)>> \o Merge(Tail(L), R)
  ELSE <<Head(R)>> \o Merge(L, Tail(R))

\* s.sort(lo, hi) over chunk boundaries lo..hi (chs[c+1] = chunk between boundary c and c+1)
RECURSIVE SortLH(_, _, _)
SortLH(chs, lo, hi) ==
  LET mid == lo + (hi - lo) \div 2 IN
  IF lo = mid THEN (IF hi > lo THEN chs[lo + 1] ELSE <<>>)
  ELSE Merge(SortLH(chs, lo, mid), SortLH(chs, mid, hi))

Init == /\ inp \in UNION {[1..m -> Keys] : m \in 0..MaxLen}
        /\ out = <<>> /\ done = FALSE

Sort ==
  /\ ~done /\ done' = TRUE /\ UNCHANGED inp
  /\ IF Len(inp) = 0 THEN out' = <<>>        \* start >= end: return
     ELSE \E chs \in ChunkOutcomes(Items(inp), 0) : out' = SortLH(chs, 0, Len(chs))

Next == Sort
Spec == Init /\ [][Next]_vars

\* C11: a permutation of the same slices, ordered by the comparison function
SortedPermutation == done => (IsPermOf(out, Items(inp)) /\ SortedSeq(out))
=============================================================================
