\* What the amd64 kernel as it is (FixTail = FALSE) does guarantee; must pass.
SPECIFICATION Spec
CONSTANTS
  F = 16
  Pad = 4
  FixTail = FALSE
INVARIANTS TypeOK CaseSane StepsAgree ClosedFormOK NeverUnmapped CorrectWhenAligned OverReadBounded WrongOnlyFromTail
