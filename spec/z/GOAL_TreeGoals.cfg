\* Goal search in TreeGoals.tla (tlc -simulate; the check appends the INVARIANT line: one G_x, plus GSafe).
\* Persistent, MinSizes, NKeys and the Fix* lines are overwritten by the check.
SPECIFICATION GSpec
CONSTANTS
  NKeys = 10
  NVals = 1
  MaxOps = 30
  MK = 4
  PS = 80
  MinSize = 400
  MinSizes = {176}
  Persistent = FALSE
  WithRewrite = FALSE
  WithReset = FALSE
  FixStaleMax = FALSE
  FixReinitBound = FALSE
CHECK_DEADLOCK FALSE
