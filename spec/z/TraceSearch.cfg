\* FixTail is rewritten by checks/c20_search.py from spec/z/search_toggles.json (drift only).
SPECIFICATION Spec
CONSTANTS
  FixTail = FALSE
INVARIANT Report
CHECK_DEADLOCK FALSE
