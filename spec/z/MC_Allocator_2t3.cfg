\* thorough: 2 threads x 3 requests, sizes {1, c-1, c, c+1, 2c+1}
SPECIFICATION Spec
CONSTANTS
  Threads = {t1, t2}
  Sizes = {1, 3, 4, 5, 9}
  Kinds = {"plain"}
  C0 = 4
  MaxAlloc = 16
  MaxChunks = 12
  NReq = 3
  MaxResets = 0
  TrimMaxes = {}
  MaxTrims = 0
  PosBase = 1024
  AlignM1 = 7
  BaseMods = {0}
  FixTrimKeepFirst = FALSE
  TrackReplay = FALSE
SYMMETRY Symm
INVARIANTS TypeOK Disjoint InChunk ExactLen AlignedOK MutexOK NoSpin ReplaySame
PROPERTIES Stable
