------------------------------ MODULE TreeMap ------------------------------
(* Abstract specification of z.Tree (z/btree.go) as seen through its public interface: a map from
   uint64 keys to uint64 values in which 0 means "absent".

   Keys and values are small ids; the conformance harness embeds them order-preservingly into uint64
   (key id NKeys stands for the largest legal key 2^64-2, which the tree also uses internally as its
   right-most routing key).  Only the ORDER of values matters (DeleteBelow compares them).

   This module is used three ways:
     * TreePages.tla EXTENDS it: every page-level action is conjoined with the abstract action, and
       the invariant MapRefinement says that the page structure answers Get exactly like `m`;
     * tlc -simulate on this module alone yields long operation histories cheaply;
     * TraceTree.tla instantiates it and uses the pure operators below (MSet, MDeleteBelow, ...) as
       the observer for properties C10 / C16.                                                  *)
EXTENDS Integers, FiniteSets, Sequences, TLC

CONSTANTS NKeys,     \* key ids 1..NKeys
          NVals,     \* value ids 1..NVals; thresholds 1..NVals+1
          MaxOps     \* bound on the number of mutating operations in a behaviour

Keys       == 1..NKeys
Vals       == 1..NVals
Thresholds == 1..(NVals + 1)

VARIABLES m,         \* Keys -> 0..NVals   (0 = absent)
          ops

mvars == <<m, ops>>

(* ------------------------- pure operators on maps (function key -> value) ------------------------- *)
MEmpty(dom)          == [k \in dom |-> 0]
MSet(mm, k, v)       == [mm EXCEPT ![k] = v]
\* DeleteBelow(ts): removes exactly the keys whose value is below ts, changes nothing else
MDeleteBelow(mm, ts) == [k \in DOMAIN mm |-> IF mm[k] < ts THEN 0 ELSE mm[k]]
Live(mm)             == {k \in DOMAIN mm : mm[k] # 0}
Pairs(mm)            == {<<k, mm[k]>> : k \in Live(mm)}
\* IterateKV(f): f is called once for every live pair; a non-zero result replaces the value
MRewrite(mm, F(_, _)) == [k \in DOMAIN mm |-> IF mm[k] # 0 /\ F(k, mm[k]) # 0 THEN F(k, mm[k]) ELSE mm[k]]

\* the rewriting callbacks used by the model: "value a becomes b" (a = 0: every value becomes b)
RewriteFn(a, b, k, v) == IF a = 0 \/ v = a THEN b ELSE 0

(* ------------------------------------- state machine ------------------------------------- *)
MInit == m = MEmpty(Keys) /\ ops = 0

MapSet(k, v)        == ops < MaxOps /\ ops' = ops + 1 /\ m' = MSet(m, k, v)
MapDeleteBelow(ts)  == ops < MaxOps /\ ops' = ops + 1 /\ m' = MDeleteBelow(m, ts)
MapRewrite(a, b)    == ops < MaxOps /\ ops' = ops + 1
                       /\ LET F(k, v) == RewriteFn(a, b, k, v) IN m' = MRewrite(m, F)
MapReset            == ops < MaxOps /\ ops' = ops + 1 /\ m' = MEmpty(Keys)
MapCloseReopen      == ops < MaxOps /\ ops' = ops + 1 /\ m' = m          \* identity on the mapping

MNext == \/ \E k \in Keys, v \in Vals : MapSet(k, v)
         \/ \E ts \in Thresholds : MapDeleteBelow(ts)
         \/ \E a \in {0} \cup Vals, b \in Vals : MapRewrite(a, b)
         \/ MapReset
         \/ MapCloseReopen

MSpec == MInit /\ [][MNext]_mvars

MTypeOK == m \in [Keys -> 0..NVals] /\ ops \in 0..MaxOps
\* DeleteBelow is exact (checked as an action property on this module)
DeleteExact == [][\A ts \in Thresholds : MapDeleteBelow(ts) =>
                     \A k \in Keys : m'[k] = (IF m[k] >= ts THEN m[k] ELSE 0)]_mvars
=============================================================================
