\* TrimTo with max <= len(chunk 0): the code as it is (FixTrimKeepFirst = FALSE) violates NoSpin (F7);
\* the check uses the counterexample as a lead and flips the constant to vet the repair.
SPECIFICATION Spec
CONSTANTS
  Threads = {t1}
  Sizes = {1, 4, 5}
  Kinds = {"plain"}
  C0 = 4
  MaxAlloc = 16
  MaxChunks = 10
  NReq = 2
  MaxResets = 2
  TrimMaxes = {1, 4, 5, 13}
  MaxTrims = 2
  PosBase = 1024
  AlignM1 = 7
  BaseMods = {0}
  FixTrimKeepFirst = FALSE
  TrackReplay = TRUE
INVARIANTS TypeOK Disjoint InChunk ExactLen AlignedOK MutexOK NoSpin ReplaySame
PROPERTIES Stable
