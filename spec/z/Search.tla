------------------------------- MODULE Search -------------------------------
(* Design specification of simd.Search (z/simd/search_amd64.s, stub_search_amd64.go; reference:
   z/simd/baseline.go Naive, portable version z/simd/search.go).

   xs is a key-value array: keys at the even positions, ascending.  Search(xs, k) is specified as
   the index (in keys) of the first key >= k, or len(xs)/2 when there is none.

   The kernel only ever *compares* a key with k (CMPQ mem, k; JAE), so a key is modelled by its
   comparison class with respect to k: "lt", "eq" or "gt".  That abstraction is exact for every
   comparison-only algorithm.  A case is

     nk    number of keys (len(xs) = 2*nk), every value 0..F
     p     index of the first key >= k in xs, p = nk when there is none (keys ascend, hence the
           classes are lt^p, then eq or gt, then gt...)
     eq    TRUE when that key equals k, FALSE when it is greater
     kc    "zero"  k = 0        (no key is below k: p = 0, nothing "lt" in memory either)
           "ones"  k = 2^64-1   (no key is above k)
           "mid"   any other k; with p = 0 /\ eq it is the minimum key, with p = nk-1 /\ eq the
                   maximum key, with ~eq it lies between two keys / below the first / above the last
     tail  the key slots of the memory that FOLLOWS the slice (positions len, len+2, ... - the
           words the kernel reads when it over-reads), each "lt" | "eq" | "gt" with respect to k.

   The amd64 kernel (transcribed from search_amd64.s, one action per trip round the loop):

       idx := 0
     loop:
       if mem[idx]   >= k  goto Found  (result idx)
       if mem[idx+2] >= k  goto Found2 (result idx+2)
       if mem[idx+4] >= k  goto Found3 (result idx+4)
       if mem[idx+6] >= k  goto Found4 (result idx+6)
       idx += 8
       if idx < len goto loop
       result := len                   (NotFound)
     return result / 2

   There is no test of idx+2j against len inside a trip and none before the first trip: when len is
   not a multiple of 8 (or is 0) the kernel compares words beyond the slice.  FixTail = FALSE is the
   code as it is; FixTail = TRUE models the repair (every compare is guarded by idx+2j < len, which is
   what "asm on the multiple-of-8 prefix, Naive on the rest" computes).                               *)
EXTENDS Naturals, FiniteSets, Sequences, TLC

CONSTANTS F,        \* largest number of keys (node fan-out); lengths 0, 2, .., 2F
          Pad,      \* key slots of memory modelled after the slice (4 suffice: see OverReadBounded)
          FixTail   \* FALSE = code as it is

Classes  == {"lt", "eq", "gt"}
KClasses == {"zero", "mid", "ones"}
TailsOf(c) == [1..Pad -> (CASE c = "zero" -> {"eq", "gt"} [] c = "ones" -> {"lt", "eq"} [] OTHER -> Classes)]

VARIABLES nk, p, eq, kc, tail,     \* the case (never changes)
          idx, pc, res, reads      \* the kernel: loop index, control, result position, positions read

case == <<nk, p, eq, kc, tail>>
vars == <<nk, p, eq, kc, tail, idx, pc, res, reads>>

len == 2 * nk

\* comparison class of the word at even position pos (slice first, then the memory after it)
Cls(pos, t) ==
  IF pos < len
    THEN LET i == pos \div 2 IN IF i < p THEN "lt" ELSE IF i = p /\ eq THEN "eq" ELSE "gt"
    ELSE LET j == (pos - len) \div 2 + 1 IN IF j <= Pad THEN t[j] ELSE "unmapped"
GE(pos, t) == Cls(pos, t) \in {"eq", "gt"}

(* ----------------------------- specification of the result ----------------------------- *)
KeyGE(i) == Cls(2 * i, tail) \in {"eq", "gt"}                 \* i in 0..nk-1
RECURSIVE FirstGE(_)
FirstGE(i) == IF i >= nk THEN nk ELSE IF KeyGE(i) THEN i ELSE FirstGE(i + 1)
SpecSearch == FirstGE(0)      \* the least i with key i >= k, or nk

(* ----------------------------------- the cases ------------------------------------------ *)
InitCase ==
  /\ nk \in 0..F
  /\ p \in 0..nk
  /\ eq \in (IF p = nk THEN {FALSE} ELSE BOOLEAN)
  /\ kc \in {c \in KClasses :
               /\ (c = "zero" => p = 0)                                  \* nothing is below 0
               /\ (c = "ones" => (p = nk \/ (p = nk - 1 /\ eq)))}        \* nothing is above 2^64-1
  /\ tail \in TailsOf(kc)

Init == InitCase /\ idx = 0 /\ pc = "loop" /\ res = 0 /\ reads = {}

(* ------------------------------------ the kernel ---------------------------------------- *)
\* may the j-th compare of a trip (position idx+2j) be executed?
Guard(pos) == IF FixTail THEN pos < len ELSE TRUE

\* outcome of one trip starting at i with memory t: <<"found", pos>> | <<"next", i+8>> | <<"notfound", len>>
\* and the positions it compared
Trip(i, t) ==
  LET try(j) == i + 2 * j
      hit(j) == Guard(try(j)) /\ GE(try(j), t)
      stop(j) == ~Guard(try(j))                    \* only with FixTail: bound reached inside a trip
      firstEnd == CHOOSE j \in 0..4 : (j = 4 \/ hit(j) \/ stop(j)) /\ \A m \in 0..(j - 1) : ~hit(m) /\ ~stop(m)
  IN  [out |-> IF firstEnd < 4 /\ hit(firstEnd) THEN <<"found", try(firstEnd)>>
               ELSE IF firstEnd < 4 THEN <<"notfound", len>>
               ELSE IF i + 8 < len THEN <<"next", i + 8>> ELSE <<"notfound", len>>,
       rd  |-> {try(j) : j \in {m \in 0..3 : m <= firstEnd /\ Guard(try(m))}}]

Iter ==
  /\ pc = "loop"
  /\ LET tr == Trip(idx, tail) IN
       /\ reads' = reads \cup tr.rd
       /\ CASE tr.out[1] = "found"    -> pc' = "done" /\ res' = tr.out[2] /\ idx' = idx
            [] tr.out[1] = "notfound" -> pc' = "done" /\ res' = tr.out[2] /\ idx' = idx
            [] tr.out[1] = "next"     -> pc' = "loop" /\ res' = res /\ idx' = tr.out[2]
  /\ UNCHANGED case

Next == Iter
Spec == Init /\ [][Next]_vars

\* the cases only (used to export the enumeration to the Go harness: `-dump` of the initial states)
NoStep == FALSE /\ UNCHANGED vars

\* the kernel as a function of the memory after the slice (for the independence property)
RECURSIVE Run(_, _)
Run(i, t) == LET tr == Trip(i, t) IN IF tr.out[1] = "next" THEN Run(tr.out[2], t) ELSE tr.out[2] \div 2

Result == res \div 2
RoundUp8(x) == IF x = 0 THEN 8 ELSE ((x + 7) \div 8) * 8

\* Closed form of the kernel's answer (used by TraceSearch.tla, justified here by ClosedFormOK): a key
\* >= k inside the slice is found first; otherwise the code as it is goes on through the key slots
\* up to the end of the 8-word group (for len 0: the four slots of the first group).
Closed(t) ==
  IF p < nk THEN p
  ELSE IF FixTail \/ (len % 8 = 0 /\ len > 0) THEN nk
  ELSE LET over == {q \in len..(RoundUp8(len) - 2) : q % 2 = 0 /\ GE(q, t)}
       IN  IF over = {} THEN nk ELSE (CHOOSE q \in over : \A r \in over : q <= r) \div 2
ClosedFormOK == pc = "done" => Result = Closed(tail)

(* ------------------------------ properties (C20) ---------------------------------------- *)
TypeOK == /\ pc \in {"loop", "done"} /\ idx % 8 = 0 /\ res \in 0..(len + 2 * Pad)
CaseSane == (pc = "loop" /\ idx = 0) => SpecSearch = p                      \* the case encoding means what it says

\* C20 as stated: the reference answer ...
ResultIsSpec    == pc = "done" => Result = SpecSearch
\* ... depending only on the contents of xs
NoOverRead      == \A r \in reads : r < len
\* (every tail is a case of its own, so agreeing with the run on one fixed tail per k class is
\* pairwise agreement over all tails)
CanonTail(c) == [j \in 1..Pad |-> IF c = "ones" THEN "lt" ELSE "gt"]
TailIndependent == pc = "done" => Run(0, CanonTail(kc)) = Result
StepsAgree      == pc = "done" => Run(0, tail) = Result     \* action form and function form coincide

\* what the code as it is does guarantee (FixTail = FALSE): exact whenever the length is a positive
\* multiple of 8 or a key >= k exists inside the slice; the over-read never passes the end of the
\* 8-word group (so Pad = 4 key slots model all of it); a wrong answer always points into the tail
CorrectWhenAligned == pc = "done" /\ ((len % 8 = 0 /\ len > 0) \/ p < nk) => Result = SpecSearch
OverReadBounded    == \A r \in reads : r < RoundUp8(len)
NeverUnmapped      == \A r \in reads : Cls(r, tail) # "unmapped"
WrongOnlyFromTail  == pc = "done" /\ Result # SpecSearch =>
                        /\ (len % 8 # 0 \/ len = 0) /\ p = nk
                        /\ res > len /\ res < RoundUp8(len) /\ GE(res, tail)
                        /\ \A q \in reads : q < res => ~GE(q, tail)
=============================================================================
