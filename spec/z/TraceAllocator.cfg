SPECIFICATION Spec
CONSTANTS
  MaxAlloc = 1073741824
  FixTrimKeepFirst = FALSE
INVARIANT Report
CHECK_DEADLOCK FALSE
