\* thorough: Reset / TrimTo histories and replay: 1 thread, 2 epochs of 3 calls, 5 sizes, at most one TrimTo
SPECIFICATION Spec
CONSTANTS
  Threads = {t1}
  Sizes = {1, 3, 4, 5, 9}
  Kinds = {"plain"}
  C0 = 4
  MaxAlloc = 16
  MaxChunks = 12
  NReq = 3
  MaxResets = 1
  TrimMaxes = {5, 13}
  MaxTrims = 1
  PosBase = 1024
  AlignM1 = 7
  BaseMods = {0}
  FixTrimKeepFirst = FALSE
  TrackReplay = TRUE
INVARIANTS TypeOK Disjoint InChunk ExactLen AlignedOK MutexOK NoSpin ReplaySame
PROPERTIES Stable
