\* The case enumeration only (initial states, no steps); dumped and replayed on the real code.
INIT Init
NEXT NoStep
CONSTANTS
  F = 16
  Pad = 4
  FixTail = FALSE
