SPECIFICATION Spec
CONSTANTS
  Clients = {1, 2, 3}
  Cap = 2
  MaxIds = 8
  MinOpsBeforeRelease = 25
  MaxOps = 40
CHECK_DEADLOCK FALSE
