----------------------------- MODULE TraceBloom -----------------------------
(* Trace specification for z.Bloom: consumes trace.ndjson recorded from the real filter.

   Two judgements are kept apart (DESIGN.md section 2):
     bad   - the recorded history violates property C19 as stated (observer, interface level):
             false negative, wrong AddIfNotHas reply, Clear that does not empty, round trip that
             changes an answer;
     drift - the exported bit image differs from the design model Bloom.tla (positions
             (h + i*l) mod size, byte idx \div 8 / bit idx % 8): the code no longer follows the
             model-checked design, which is reported but is not by itself a violation.

   Events (one JSON object per line):
     {ev:"New", t, size, locs}            new filter (also resets the observer; t = trace id)
     {ev:"Add", h, l, bits}               bits = positions set in JSONMarshal's image after the call
     {ev:"Has", h, l, res}
     {ev:"AddIfNotHas", h, l, pre, res, post, bits}   pre/post = Has(x) just before / after
     {ev:"Clear", bits, probes}           probes = [[h,l,res]...] Has answers after Clear
     {ev:"RoundTrip", before, after, bits}   before/after = [[h,l,res]...] on the same probe hashes
*)
EXTENDS Naturals, FiniteSets, Sequences, TLC, Json

Trace == ndJsonDeserialize("trace.ndjson")

VARIABLES l, size, locs, bits, added, tid, bad, drift
vars == <<l, size, locs, bits, added, tid, bad, drift>>

Pos(x) == {(x[1] + i * x[2]) % size : i \in 0..(locs-1)}
ToSet(s) == {s[i] : i \in DOMAIN s}
Flag(cond, why) == IF cond THEN {} ELSE {[at |-> l, trace |-> tid, why |-> why]}

Init == l = 1 /\ size = 8 /\ locs = 1 /\ bits = {} /\ added = {} /\ tid = 0 /\ bad = {} /\ drift = {}

Step(e) ==
  CASE e.ev = "New" ->
         /\ size' = e.size /\ locs' = e.locs /\ bits' = {} /\ added' = {} /\ tid' = e.t
         /\ UNCHANGED <<bad, drift>>
    [] e.ev = "Add" ->
         LET x == <<e.h, e.l>> IN
         /\ bits' = bits \cup Pos(x) /\ added' = added \cup {x}
         /\ drift' = drift \cup Flag(ToSet(e.bits) = bits', "Add: exported bits differ from model")
         /\ UNCHANGED <<size, locs, tid, bad>>
    [] e.ev = "Has" ->
         LET x == <<e.h, e.l>> IN
         /\ bad' = bad \cup Flag(x \in added => e.res, "Has: false negative for an added hash")
         /\ drift' = drift \cup Flag(e.res = (Pos(x) \subseteq bits), "Has: reply differs from model")
         /\ UNCHANGED <<size, locs, bits, added, tid>>
    [] e.ev = "AddIfNotHas" ->
         LET x == <<e.h, e.l>> IN
         /\ bits' = bits \cup Pos(x) /\ added' = added \cup {x}
         /\ bad' = bad \cup Flag(e.res = ~e.pre, "AddIfNotHas: reply is not the negation of Has beforehand")
                       \cup Flag(e.post, "AddIfNotHas: Has false afterwards")
                       \cup Flag(x \in added => e.pre, "Has: false negative for an added hash")
         /\ drift' = drift \cup Flag(ToSet(e.bits) = bits', "AddIfNotHas: exported bits differ from model")
         /\ UNCHANGED <<size, locs, tid>>
    [] e.ev = "Clear" ->
         /\ bits' = {} /\ added' = {}
         /\ bad' = bad \cup Flag(\A i \in DOMAIN e.probes : ~e.probes[i][3], "Clear: a hash is still present")
                       \cup Flag(locs = 0 \/ Len(e.bits) = 0, "Clear: bit image not empty")
         /\ UNCHANGED <<size, locs, tid, drift>>
    [] e.ev = "RoundTrip" ->
         /\ bad' = bad \cup Flag(e.before = e.after, "RoundTrip: Has answers changed")
                       \cup Flag(\A i \in DOMAIN e.after : <<e.after[i][1], e.after[i][2]>> \in added => e.after[i][3],
                                 "RoundTrip: false negative afterwards")
         /\ drift' = drift \cup Flag(ToSet(e.bits) = bits, "RoundTrip: exported bits differ from model")
         /\ UNCHANGED <<size, locs, bits, added, tid>>

Next == /\ l <= Len(Trace)
        /\ l' = l + 1
        /\ Step(Trace[l])

Spec == Init /\ [][Next]_vars

\* printed once, from the state that has consumed the whole trace
Report == (l = Len(Trace) + 1) => PrintT(<<"OBS-RESULT", bad, drift>>)
=============================================================================
