\* Design check of Search.tla.  FixTail is rewritten by checks/c20_search.py from
\* spec/z/search_toggles.json (the one place where the toggle lives); FALSE = code as it is.
\* Strong set (C20 as stated) - holds only for the repaired kernel:
SPECIFICATION Spec
CONSTANTS
  F = 16
  Pad = 4
  FixTail = FALSE
INVARIANTS TypeOK CaseSane StepsAgree ClosedFormOK NeverUnmapped ResultIsSpec NoOverRead TailIndependent
