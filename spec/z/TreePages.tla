------------------------------ MODULE TreePages ------------------------------
(* Page-level design specification of z.Tree (z/btree.go), transcribed function by function:
   node.search / set / get / compact, Tree.newNode / set / Set / split / get / compact / DeleteBelow /
   iterate / IterateKV / Reset / reinit, and the buffer arithmetic behind t.data (len / cap, the
   8-byte padding, Buffer.Grow's doubling rule, the 8 bytes a file-backed tree has less than a
   memory-backed one).

   The pure operators live in TreeOps.tla (shared with the trace specification, which uses them to
   compare the real tree's pages with this model).  This module is the state machine: every action
   is the abstract action of TreeMap.tla conjoined with the page-level transcription, so `m` always
   is what the abstract map says and MapRefinement compares the tree's answers with it.

   Toggles (FALSE = the code as it is, TRUE = a modelled repair):
     FixStaleMax    - node.compact turns a kept max key whose value is below the threshold into a
                      zero-valued placeholder instead of leaving the stale value       (defect F2)
     FixReinitBound - reinit's frontier scan requires the whole page to lie inside len(t.data)
                      instead of testing only the start of the page                    (defect F3)
   The values used by the checks are in tree_toggles.json and must describe /repo's current code. *)
EXTENDS TreeMap

CONSTANTS MK,          \* maxKeys per node (pageSize/16 - 1)
          PS,          \* page size in bytes = 16*(MK+1)
          MinSize,     \* minSize: initial buffer / file size in bytes (1 MiB in the code)
          Persistent,  \* TRUE: NewTreePersistent (file-backed, close/reopen enabled)
          WithRewrite, \* enable the IterateKV rewrite actions
          WithReset,   \* enable Reset
          FixStaleMax, FixReinitBound

INSTANCE TreeOps

AbsMax == NKeys        \* id of the key 2^64-2 (absoluteMax), also the tree's right-most routing key
\* bound on page ids in the model: every page holds at least one key, a Set allocates at most
\* three pages
MaxPid == IF MaxOps + 6 < 2 * NKeys + 4 THEN MaxOps + 6 ELSE 2 * NKeys + 4

VARIABLES pages,       \* [pid -> [leaf, keys, vals, pid]]   (pid field 0 = page never initialised)
          link,        \* [pid -> word 0 of a freed page = next free page]
          nextPage, freePage, nLeafKeys, nPagesFree,
          dataLen,     \* len(t.data)
          capLen,      \* cap(t.data)
          err          \* "none" or the kind of panic the code would raise
vars == <<pages, link, nextPage, freePage, nLeafKeys, nPagesFree, dataLen, capLen, err, m, ops>>

Cur == [pages |-> pages, link |-> link, nextPage |-> nextPage, freePage |-> freePage,
        nLeafKeys |-> nLeafKeys, nPagesFree |-> nPagesFree, dataLen |-> dataLen, capLen |-> capLen,
        err |-> err, mk |-> MK, ps |-> PS, absmax |-> AbsMax]
Install(t) == /\ pages' = t.pages /\ link' = t.link /\ nextPage' = t.nextPage /\ freePage' = t.freePage
              /\ nLeafKeys' = t.nLeafKeys /\ nPagesFree' = t.nPagesFree /\ dataLen' = t.dataLen
              /\ capLen' = t.capLen /\ err' = t.err

\* NewTree / NewTreePersistent on a new file
InitTree == IF Persistent THEN NewPersistent(T0(MK, PS, AbsMax, MaxPid), MinSize)
                          ELSE NewInMemory(T0(MK, PS, AbsMax, MaxPid), MinSize)

Init == /\ MInit
        /\ LET t == InitTree IN
           /\ pages = t.pages /\ link = t.link /\ nextPage = t.nextPage /\ freePage = t.freePage
           /\ nLeafKeys = t.nLeafKeys /\ nPagesFree = t.nPagesFree /\ dataLen = t.dataLen
           /\ capLen = t.capLen /\ err = t.err

DoSet(k, v) == /\ err = "none" /\ MapSet(k, v) /\ Install(TreeSet(Cur, k, v))
DoDeleteBelow(ts) == /\ err = "none" /\ MapDeleteBelow(ts) /\ Install(TreeDeleteBelow(Cur, ts))
DoRewrite(a, b) == /\ WithRewrite /\ err = "none" /\ MapRewrite(a, b)
                   /\ LET F(k, v) == RewriteFn(a, b, k, v) IN Install(TreeIterateKV(Cur, F))
DoReset == /\ WithReset /\ err = "none" /\ MapReset /\ Install(TreeReset(Cur, MinSize))
\* clean Close followed by NewTreePersistent on the same file: the page array survives, the in-memory
\* fields are rebuilt by reinit; t.data now spans the whole file
DoReopen == /\ Persistent /\ err = "none" /\ MapCloseReopen
            /\ Install(TreeReopen(Cur))

Next == \/ \E k \in Keys, v \in Vals : DoSet(k, v)
        \/ \E ts \in Thresholds : DoDeleteBelow(ts)
        \/ \E a \in {0} \cup Vals, b \in Vals : DoRewrite(a, b)
        \/ DoReset
        \/ DoReopen
Spec == Init /\ [][Next]_vars

(* ------------------------------------- properties ------------------------------------- *)
NoError == err = "none"
\* C10: Get answers like the abstract map (for every key id, including the largest legal key)
MapRefinement == err = "none" => \A k \in Keys : TreeGet(Cur, k) = m[k]
\* C10: IterateKV visits every live pair exactly once
IterateExact == err = "none" =>
                  LET vis == Visited(Cur) IN
                  /\ \A i, j \in 1..Len(vis) : i # j => vis[i][1] # vis[j][1]
                  /\ {vis[i] : i \in 1..Len(vis)} = Pairs(m)
\* every node sorted, every routing key is the max key of the subtree it routes to, no nil child
Sorted == err = "none" => WellFormed(Cur)
\* free list: reachable pages and the free list partition 1..nextPage-1 (no leak, no page handed out
\* twice), the list is as long as NumPagesFree says
NoLeak == err = "none" =>
            LET reach == Reach(Cur, 1)
                fl == FreeListSet(Cur)
            IN /\ reach \cap fl = {}
               /\ reach \cup fl = 1..(nextPage - 1)
               /\ Cardinality(fl) = nPagesFree
               /\ ReachCount(Cur, 1) = Cardinality(reach)       \* no page reachable along two paths
\* C16: reopening never panics ...
ReopenNoPanic == (Persistent /\ err = "none") => TreeReopen(Cur).err = "none"
\* ... and rebuilds exactly the live values (key count and page statistics)
ReopenSame == (Persistent /\ err = "none") =>
                LET r == TreeReopen(Cur) IN
                r.err = "none" => /\ r.nextPage = nextPage /\ r.freePage = freePage
                                  /\ r.nLeafKeys = nLeafKeys /\ r.nPagesFree = nPagesFree
                                  /\ \A k \in Keys : TreeGet(r, k) = TreeGet(Cur, k)
\* every page the code touches lies inside cap(t.data)
InBoundsAll == err = "none" => \A p \in 1..(nextPage - 1) : (p + 1) * PS <= capLen
=============================================================================
