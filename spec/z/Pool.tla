-------------------------------- MODULE Pool --------------------------------
(* Design specification of z.AllocatorPool (z/allocator.go): beyond the listed properties; it is the way
   badger and the cache's users recycle z.Allocators (Return = TrimTo + park, Get = take + Reset, see the
   Reset / TrimTo histories of Allocator.tla for what one allocator goes through).

     Get(sz, tag):  numGets++ ; non-blocking receive from allocCh: a pooled allocator (FIFO), Reset and
                    handed out - or, the channel being empty, a new allocator.
     Return(a):     TrimTo(400 MiB); non-blocking send into allocCh (capacity Cap): pooled - or, the
                    channel being full, released (its memory freed) at once.
     freeupAllocators (own goroutine, ticker of 2 s): at every tick, if numGets moved since the last
                    tick it only remembers the new count; otherwise it releases ONE pooled allocator.
     Release():     Signal; the goroutine closes allocCh, releases everything pooled and ends; Release
                    returns after that.

   One action per channel operation / tick (they are the linearization points: the channel is the only
   shared state besides the atomic counter).  Calls after Release has begun are API misuse (a send on
   the closed channel panics) and are not modelled.                                                 *)
EXTENDS Naturals, Sequences, FiniteSets, TLC

CONSTANTS Clients, Cap, MaxIds, MaxOps,
          MinOpsBeforeRelease   \* simulation only: Release is not called before that many client operations (0 = any time)

VARIABLES
  pool,       \* allocCh: sequence of allocator ids (FIFO)
  out,        \* client -> set of allocator ids it holds
  released,   \* ids whose memory was freed (Allocator.Release)
  nextId,
  gets, last, \* numGets and the goroutine's copy taken at the previous tick
  phase,      \* "open" | "closing" (Signal sent, Release waits) | "closed"
  ops,        \* number of client operations so far (bound)
  hist        \* history of the behaviour, for the replay harness (hidden from the VIEW)

vars == <<pool, out, released, nextId, gets, last, phase, ops, hist>>
View == <<pool, out, released, nextId, gets, last, phase, ops>>

Ids == 1..MaxIds
ToSet(s) == {s[i] : i \in DOMAIN s}
Held == UNION {out[c] : c \in Clients}

Init == /\ pool = <<>> /\ out = [c \in Clients |-> {}] /\ released = {} /\ nextId = 1
        /\ gets = 0 /\ last = 0 /\ phase = "open" /\ ops = 0 /\ hist = <<>>

Get(c) ==
  /\ phase = "open" /\ ops < MaxOps
  /\ gets' = gets + 1 /\ ops' = ops + 1
  /\ IF pool # <<>>
       THEN /\ out' = [out EXCEPT ![c] = @ \cup {Head(pool)}] /\ pool' = Tail(pool)
            /\ hist' = Append(hist, <<"Get", c, Head(pool)>>)
            /\ UNCHANGED nextId
       ELSE /\ nextId <= MaxIds
            /\ out' = [out EXCEPT ![c] = @ \cup {nextId}] /\ nextId' = nextId + 1
            /\ hist' = Append(hist, <<"Get", c, nextId>>)
            /\ UNCHANGED pool
  /\ UNCHANGED <<released, last, phase>>

Return(c, a) ==
  /\ phase = "open" /\ ops < MaxOps /\ a \in out[c]
  /\ out' = [out EXCEPT ![c] = @ \ {a}] /\ ops' = ops + 1
  /\ IF Len(pool) < Cap
       THEN pool' = Append(pool, a) /\ UNCHANGED released
       ELSE released' = released \cup {a} /\ UNCHANGED pool
  /\ hist' = Append(hist, <<"Return", c, a>>)
  /\ UNCHANGED <<nextId, gets, last, phase>>

Tick ==                 \* the goroutine's ticker case
  /\ phase = "open"
  /\ IF gets # last
       THEN last' = gets /\ UNCHANGED <<pool, released>>
       ELSE IF pool # <<>>
              THEN pool' = Tail(pool) /\ released' = released \cup {Head(pool)} /\ UNCHANGED last
              ELSE UNCHANGED <<pool, released, last>>
  /\ hist' = Append(hist, <<"Tick", 0, 0>>)
  /\ UNCHANGED <<out, nextId, gets, phase, ops>>

ReleaseCall ==          \* Release(): Signal; the caller waits
  /\ phase = "open" /\ phase' = "closing" /\ ops >= MinOpsBeforeRelease
  /\ hist' = Append(hist, <<"Release", 0, 0>>)
  /\ UNCHANGED <<pool, out, released, nextId, gets, last, ops>>

CloseDrain ==           \* the goroutine: close(allocCh); release everything pooled; Done
  /\ phase = "closing" /\ phase' = "closed"
  /\ released' = released \cup ToSet(pool) /\ pool' = <<>>
  /\ UNCHANGED <<out, nextId, gets, last, ops, hist>>

Next == \/ \E c \in Clients : Get(c) \/ \E a \in Ids : Return(c, a)
        \/ Tick \/ ReleaseCall \/ CloseDrain

Spec == Init /\ [][Next]_vars
FairSpec == Spec /\ WF_vars(Tick) /\ WF_vars(CloseDrain)

(* ---- properties ---- *)
TypeOK == /\ ToSet(pool) \subseteq Ids /\ Held \subseteq Ids /\ released \subseteq Ids
          /\ phase \in {"open", "closing", "closed"}
\* an allocator is in exactly one place: with one client, in the pool (once), or released
Exclusive ==
  /\ \A c, d \in Clients : c # d => out[c] \cap out[d] = {}
  /\ Held \cap ToSet(pool) = {} /\ Held \cap released = {} /\ ToSet(pool) \cap released = {}
  /\ \A i, j \in DOMAIN pool : i # j => pool[i] # pool[j]
\* no allocator is lost: every allocator ever made is held, pooled or released (no leak)
Conservation == (1..(nextId - 1)) = Held \cup ToSet(pool) \cup released
Bounded == Len(pool) <= Cap
ClosedIsEmpty == phase = "closed" => pool = <<>>
\* an idle pool gives its memory back: once the clients stop, the pool drains
IdleDrains == <>[](pool = <<>>)
\* Release returns
ReleaseReturns == [](phase = "closing" => <>(phase = "closed"))
=============================================================================
