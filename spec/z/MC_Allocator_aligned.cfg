\* thorough: AllocateAligned and Allocate mixed, 2 threads x 2 requests, chunk bases 0 and 3 mod 8
SPECIFICATION Spec
CONSTANTS
  Threads = {t1, t2}
  Sizes = {1, 4, 5}
  Kinds = {"plain", "aligned"}
  C0 = 4
  MaxAlloc = 32
  MaxChunks = 12
  NReq = 2
  MaxResets = 0
  TrimMaxes = {}
  MaxTrims = 0
  PosBase = 1024
  AlignM1 = 7
  BaseMods = {0, 3}
  FixTrimKeepFirst = FALSE
  TrackReplay = FALSE
SYMMETRY Symm
INVARIANTS TypeOK Disjoint InChunk ExactLen AlignedOK MutexOK NoSpin ReplaySame
PROPERTIES Stable
