------------------------------- MODULE Bloom -------------------------------
(* Design specification of z.Bloom (z/bbloom.go).

   A 64-bit hash is split by the code into  h = hash >> (64-exp)  (the top exp bits) and
   l = hash << (64-exp) >> (64-exp)  (the low exp bits), where 2^exp = Size is the number of bits.
   The i-th probe position is (h + i*l) & (Size-1).  A hash is therefore modelled as the pair <<h,l>>.
   The exported form (JSONMarshal) is the byte image of the bit set: bit idx lives in byte idx \div 8
   at bit position idx % 8; JSONUnmarshal rebuilds a filter from those bytes.                      *)
EXTENDS Naturals, FiniteSets, Sequences, TLC

CONSTANTS Size,      \* number of bits (a power of two; >= 512 in the code, small in the model)
          Locs,      \* probe positions per hash (setLocs)
          MaxOps     \* bound on behaviour length (model checking only)

Hashes == (0..Size-1) \X (0..Size-1)
Pos(x) == {(x[1] + i * x[2]) % Size : i \in 0..(Locs-1)}
HasIn(b, x) == Pos(x) \subseteq b

\* serialisation: a function from byte index to the set of bit positions set in that byte
Marshal(b) == [j \in 0..((Size \div 8) - 1) |-> {p \in 0..7 : (8*j + p) \in b}]
Unmarshal(bytes) == UNION {{8*j + p : p \in bytes[j]} : j \in DOMAIN bytes}

VARIABLES bits,      \* the bit set
          added,     \* history: hashes added since the last Clear
          last,      \* last reply: [op, x, res]
          ops

vars == <<bits, added, last, ops>>

Init == bits = {} /\ added = {} /\ last = [op |-> "none", x |-> <<0,0>>, res |-> FALSE] /\ ops = 0

Add(x) ==
  /\ ops < MaxOps /\ ops' = ops + 1
  /\ bits' = bits \cup Pos(x)
  /\ added' = added \cup {x}
  /\ last' = [op |-> "Add", x |-> x, res |-> TRUE]

HasQ(x) ==
  /\ ops < MaxOps /\ ops' = ops + 1
  /\ last' = [op |-> "Has", x |-> x, res |-> HasIn(bits, x)]
  /\ UNCHANGED <<bits, added>>

AddIfNotHas(x) ==
  /\ ops < MaxOps /\ ops' = ops + 1
  /\ IF HasIn(bits, x)
       THEN /\ UNCHANGED <<bits, added>>
            /\ last' = [op |-> "AddIfNotHas", x |-> x, res |-> FALSE]
       ELSE /\ bits' = bits \cup Pos(x)
            /\ added' = added \cup {x}
            /\ last' = [op |-> "AddIfNotHas", x |-> x, res |-> TRUE]

Clear ==
  /\ ops < MaxOps /\ ops' = ops + 1
  /\ bits' = {} /\ added' = {}
  /\ last' = [op |-> "Clear", x |-> <<0,0>>, res |-> TRUE]

RoundTrip ==   \* replace the filter by JSONUnmarshal(JSONMarshal(filter))
  /\ ops < MaxOps /\ ops' = ops + 1
  /\ bits' = Unmarshal(Marshal(bits))
  /\ last' = [op |-> "RoundTrip", x |-> <<0,0>>, res |-> TRUE]
  /\ UNCHANGED added

Next == \/ \E x \in Hashes : Add(x) \/ HasQ(x) \/ AddIfNotHas(x)
        \/ Clear \/ RoundTrip

Spec == Init /\ [][Next]_vars

(* ------------------------------ properties (C19) ------------------------------ *)
NoFalseNegative == \A x \in added : HasIn(bits, x)
HasReplyOK      == (last.op = "Has" /\ last.x \in added) => last.res
ClearEmpties    == last.op = "Clear" => (bits = {} /\ \A x \in Hashes : ~HasIn(bits, x) \/ Locs = 0)
\* AddIfNotHas returns TRUE exactly when Has was false beforehand, and makes Has true
AddIfNotHasOK   == [][\A x \in Hashes : AddIfNotHas(x) =>
                        /\ last'.res = ~HasIn(bits, x)
                        /\ HasIn(bits', x)]_vars
\* a round trip answers Has identically for every hash
RoundTripOK     == [][RoundTrip => \A x \in Hashes : HasIn(bits', x) = HasIn(bits, x)]_vars
\* recording never clears a bit except Clear
Monotone        == [][(last'.op # "Clear") => bits \subseteq bits']_vars
=============================================================================
