\* Exhaustive model checking of TreePages.tla (C16, quick tier).
\* The two Fix* lines are OVERWRITTEN by checks/c10_tree.py with the values of tree_toggles.json
\* (FALSE = /repo's code as it is).  MK = 4 keys per node = page size 80, MinSize = 5 pages = the
\* scaled 1 MiB (a file-backed tree holds 8 bytes less, so its last page is partial, as in the code).
SPECIFICATION Spec
CONSTANTS
  NKeys = 7
  NVals = 2
  MaxOps = 7
  MK = 4
  PS = 80
  MinSize = 400
  Persistent = TRUE
  WithRewrite = TRUE
  WithReset = TRUE
  FixStaleMax = FALSE
  FixReinitBound = FALSE
INVARIANTS NoError Sorted MapRefinement IterateExact NoLeak InBoundsAll ReopenNoPanic ReopenSame
CHECK_DEADLOCK FALSE
