\* The abstract map on its own: type invariant and exactness of DeleteBelow.
SPECIFICATION MSpec
CONSTANTS
  NKeys = 3
  NVals = 2
  MaxOps = 4
INVARIANTS MTypeOK
PROPERTIES DeleteExact
CHECK_DEADLOCK FALSE
