------------------------------ MODULE BufferOps ------------------------------
(* Pure operators shared by the design spec Buffer.tla and the trace spec TraceBuffer.tla:
   the arithmetic of z.Buffer (z/buffer.go) transcribed as the code computes it.            *)
EXTENDS Integers, Sequences

(* b.Grow(n) on a buffer of capacity curSz, used length off (= b.offset, padding included):

     if b.maxSz > 0 && int(b.offset)+n > b.maxSz { panic }
     if int(b.offset)+n < b.curSz { return }              -- note: strict, an exact fit grows
     growBy := b.curSz + n
     if growBy > 1<<30 { growBy = 1 << 30 }
     if n > growBy { growBy = n }
     b.curSz += growBy
     UseCalloc: if b.autoMmapAfter > 0 && b.curSz > b.autoMmapAfter { switch to an mmapped file }

   growCap is the literal 1<<30.                                                            *)
GrowF(curSz, mode, off, n, maxSz, auto, growCap) ==
  IF maxSz > 0 /\ off + n > maxSz
    THEN [panic |-> TRUE, curSz |-> curSz, mode |-> mode, grew |-> FALSE]
  ELSE IF off + n < curSz
    THEN [panic |-> FALSE, curSz |-> curSz, mode |-> mode, grew |-> FALSE]
  ELSE LET g0 == curSz + n
           g1 == IF g0 > growCap THEN growCap ELSE g0
           g2 == IF n > g1 THEN n ELSE g1
           ns == curSz + g2
       IN [panic |-> FALSE, curSz |-> ns,
           mode  |-> IF mode = "calloc" /\ auto > 0 /\ ns > auto THEN "mmap" ELSE mode,
           grew  |-> TRUE]

Framed(op) == op \in {"WriteSlice", "SliceAllocate"}
RawOp(op)  == op \in {"Write", "Allocate", "AllocateOffset"}

(* A whole public operation: which Grow calls it performs and how offset advances.
     Write(p) / Allocate(n) / AllocateOffset(n):   Grow(n); offset += n
     SliceAllocate(sz) (and WriteSlice):           Grow(8+sz);
                                                   writeLen:     Allocate(8)  = Grow(8);  offset += 8
                                                   Allocate(sz):                Grow(sz); offset += sz
   A panic unwinds the operation at that point.  Result: panic?, capacity, mode and offset afterwards;
   inner = one of the two nested Grow calls of SliceAllocate grew again (the design says: never).   *)
OpGrow(op, n, hdr, curSz, mode, off, maxSz, auto, growCap) ==
  IF RawOp(op)
    THEN LET r == GrowF(curSz, mode, off, n, maxSz, auto, growCap)
         IN [panic |-> r.panic, curSz |-> r.curSz, mode |-> r.mode,
             off |-> IF r.panic THEN off ELSE off + n, inner |-> FALSE]
    ELSE LET r1 == GrowF(curSz, mode, off, hdr + n, maxSz, auto, growCap)
             r2 == GrowF(r1.curSz, r1.mode, off, hdr, maxSz, auto, growCap)
             r3 == GrowF(r2.curSz, r2.mode, off + hdr, n, maxSz, auto, growCap)
         IN IF r1.panic THEN [panic |-> TRUE, curSz |-> curSz, mode |-> mode, off |-> off, inner |-> FALSE]
            ELSE IF r2.panic THEN [panic |-> TRUE, curSz |-> r1.curSz, mode |-> r1.mode, off |-> off, inner |-> TRUE]
            ELSE IF r3.panic THEN [panic |-> TRUE, curSz |-> r2.curSz, mode |-> r2.mode, off |-> off + hdr, inner |-> TRUE]
            ELSE [panic |-> FALSE, curSz |-> r3.curSz, mode |-> r3.mode, off |-> off + hdr + n,
                  inner |-> r2.grew \/ r3.grew]

\* bytes an operation needs at the end of the buffer
Need(op, n, hdr) == IF Framed(op) THEN hdr + n ELSE n
=============================================================================
