SPECIFICATION Spec
INVARIANT Report
CHECK_DEADLOCK FALSE
