\* liveness on a tiny configuration: every call returns (weak fairness per thread)
SPECIFICATION FairSpec
CONSTANTS
  Threads = {t1, t2}
  Sizes = {1, 4, 5}
  Kinds = {"plain"}
  C0 = 4
  MaxAlloc = 16
  MaxChunks = 8
  NReq = 1
  MaxResets = 1
  TrimMaxes = {}
  MaxTrims = 0
  PosBase = 1024
  AlignM1 = 7
  BaseMods = {0}
  FixTrimKeepFirst = FALSE
  TrackReplay = FALSE
INVARIANTS TypeOK NoSpin
PROPERTIES Terminates
