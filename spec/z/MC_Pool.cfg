SPECIFICATION FairSpec
CONSTANTS
  Clients = {1, 2}
  Cap = 2
  MaxIds = 4
  MinOpsBeforeRelease = 0
  MaxOps = 7
VIEW View
INVARIANTS TypeOK Exclusive Conservation Bounded ClosedIsEmpty
PROPERTIES IdleDrains ReleaseReturns
CHECK_DEADLOCK FALSE
