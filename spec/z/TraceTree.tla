------------------------------ MODULE TraceTree ------------------------------
(* Trace specification for z.Tree (properties C10 and C16): consumes trace.ndjson recorded from the
   real tree by harness/z/tree_test.go.txt.  The observer is the abstract map of TreeMap.tla.

   bad   - the recorded history violates C10 / C16 AS STATED (interface level: only Set, DeleteBelow,
           IterateKV, Reset, Close + NewTreePersistent, Get, Stats, panics).  Every record carries
           `prop` ("C10" or "C16"); a map-level disagreement on a tree that has been reopened counts for
           both ("the reopened tree continues to behave as a correct map").
   drift - the white-box quantities logged with an event (nextPage, freePage, the two calculated
           statistics, len/cap of t.data, the page structure) differ from the page-level design model
           TreeOps.tla run on the same history (toggles as in tree_toggles.json); reported, never a
           verdict.  Only events that carry `wb` are compared.

   Keys and values are ids (TLC integers are 32 bit); the harness maps them order-preservingly to
   uint64.  Events, one JSON object per line; `o` is the observation made AFTER the call:
     o = {g: [value id of Get(key id i), i = 1..u], it: [[kid, vid], ...] IterateKV callbacks in order,
          st: {nlk, np, npf, bytes, ps, occ, alloc}}          (-1 = a key / value outside the universe)
     {ev:"New", t, u, w, mk, ps, pers, src, o}      new tree (resets the observer); u key ids, w value ids
     {ev:"Set", k, v, o}        {ev:"SetMany", runs:[[lo,hi]...], v, o}   (Set of every id in the runs, observed once)
     {ev:"Del", ts, lmax, o}    lmax = key ids that were the max key of a leaf before the call
     {ev:"Rw", vis:[[kid, vid, newvid]...], o}      IterateKV with a rewriting callback
     {ev:"Reset", o}            {ev:"Reopen", o}
     {ev:"Panic", t, in, msg, sbo, reinit}          the call `in` panicked; the trace ends here
   Bulk traces (large trees; the harness compares Get of EVERY key id with the trivially known expected
   value and classifies every IterateKV callback - a byte-level monitor - and records only counts):
     c = {gbad: number of key ids whose Get differs from the expected value (0 for absent keys), first,
          itn / itdup / itwrong: IterateKV callbacks in total / for a key already visited / not a live
          pair, itv: [first visits of a live pair, per value id], st, dl, cl, n, grows, rsplit, rsr}
     {ev:"BNew", t, u, w, ps, mk, pers, src, ms, c}      in a bulk trace m[v] = number of live keys with value id v
     {ev:"BSet", add:[number of new keys per value id], c}     {ev:"BDel", ts, c}     {ev:"BReopen", c}
   Panic events also carry fault (memory fault), frame (innermost method of Tree on the panicking stack)
   and moved (the capacity of t.data changed during the call).
   Known-finding signatures are decided HERE (the `why` text), from the recorded facts only.   *)
EXTENDS Integers, FiniteSets, Sequences, TLC, Json

CONSTANTS FixStaleMax, FixReinitBound      \* toggles of the page model (drift only)

Trace == ndJsonDeserialize("trace.ndjson")

TM == INSTANCE TreeMap WITH NKeys <- 1, NVals <- 1, MaxOps <- 0, m <- 0, ops <- 0
INSTANCE TreeOps

VARIABLES l, tid, u, pers, m, st, reopened, dead, pm,
          nb, nd,            \* records produced by the last step
          bad, drift, cnt    \* accumulated: at most Cap records per (prop, why), and the exact counts
vars == <<l, tid, u, pers, m, st, reopened, dead, pm, nb, nd, bad, drift, cnt>>

NoStats == [nlk |-> -1]
Init == /\ l = 1 /\ tid = 0 /\ u = 0 /\ pers = FALSE /\ m = <<>> /\ st = NoStats
        /\ reopened = FALSE /\ dead = TRUE /\ pm = [err |-> "off"] /\ nb = {} /\ nd = {}
        /\ bad = {} /\ drift = {} /\ cnt = <<>>

Rec(prop, why) == [at |-> l, trace |-> tid, why |-> why, prop |-> prop]
\* a map-level complaint belongs to C10, and to C16 as well once the tree has been reopened
MapBad(cond, why) == IF cond THEN {} ELSE {Rec("C10", why)} \cup (IF reopened THEN {Rec("C16", why)} ELSE {})
Flag(cond, prop, why) == IF cond THEN {} ELSE {Rec(prop, why)}

(* ------------------------------ reading an observation ------------------------------ *)
GetOK(o, mm)  == Len(o.g) = Len(mm) /\ \A k \in DOMAIN mm : o.g[k] = mm[k]
ItPairs(o)    == {<<o.it[i][1], o.it[i][2]>> : i \in 1..Len(o.it)}
\* every live pair exactly once
IterOK(o, mm) == Len(o.it) = Cardinality(TM!Live(mm)) /\ ItPairs(o) = TM!Pairs(mm)
\* the mapping the real tree shows (used to resynchronise after a complaint, so that one defect is
\* reported where it happens and not again on every later event)
Shown(o)      == [k \in 1..Len(o.g) |-> IF o.g[k] < 0 THEN 0 ELSE o.g[k]]
Judge(op, o, mm) == MapBad(GetOK(o, mm), op \o ": Get does not return the value last set (or 0 for an absent key)")
                    \cup MapBad(IterOK(o, mm), op \o ": IterateKV does not visit every live pair exactly once")

StatsSame(a, b) == /\ a.nlk = b.nlk /\ a.np = b.np /\ a.npf = b.npf /\ a.bytes = b.bytes
                   /\ a.ps = b.ps /\ a.occ = b.occ

(* ------------------------------ page model (drift) ------------------------------ *)
PmOn == pm.err = "none"
WbSame(w, t) ==
  /\ w.np = t.nextPage /\ w.fp = t.freePage /\ w.nlk = t.nLeafKeys /\ w.npf = t.nPagesFree
  /\ w.dl = t.dataLen /\ w.cl = t.capLen
  /\ \A i \in 1..Len(w.pages) :
       LET p == w.pages[i]  n == t.pages[p[1]] IN
       /\ n.leaf = (p[2] = 1) /\ n.keys = p[3] /\ n.vals = p[4]
  /\ {w.pages[i][1] : i \in 1..Len(w.pages)} = Reach(t, 1)
  /\ w.free = LET RECURSIVE Chain(_, _)
                  Chain(p, n) == IF p = 0 \/ n = 0 THEN <<>> ELSE <<p>> \o Chain(t.link[p], n - 1)
              IN Chain(t.freePage, t.nextPage)
Drift(e, t, op) == IF "wb" \in DOMAIN e /\ t.err = "none"
                     THEN (IF WbSame(e.wb, t) THEN {} ELSE {Rec("drift", op \o ": pages / frontier / free list / statistics differ from the page model")})
                     ELSE {}
\* the model is dropped (until the next New) once it has disagreed or cannot follow
PmNext(e, t) == IF "wb" \in DOMAIN e /\ t.err = "none" /\ WbSame(e.wb, t) THEN t ELSE [err |-> "off"]

(* ------------------------------ bulk checkpoints ------------------------------ *)
BGetOK(c)       == c.gbad = 0
BIterOK(c, lv) == c.itdup = 0 /\ c.itwrong = 0 /\ c.itv = lv
BJudge(op, c, lv) ==
     MapBad(BGetOK(c), op \o ": Get does not return the value last set (or 0 for an absent key)")
     \cup MapBad(BIterOK(c, lv), op \o ": IterateKV does not visit every live pair exactly once")

(* ------------------------------ one event ------------------------------ *)
Step(e) ==
  CASE e.ev = "New" ->
         LET mm == TM!MEmpty(1..e.u)
             t0 == IF "wb" \in DOMAIN e
                     THEN (IF e.pers THEN NewPersistent(T0(e.mk, e.ps, e.u, e.maxpid), e.minsize)
                                     ELSE NewInMemory(T0(e.mk, e.ps, e.u, e.maxpid), e.minsize))
                     ELSE [err |-> "off"]
         IN
         /\ tid' = e.t /\ u' = e.u /\ pers' = e.pers /\ reopened' = FALSE /\ dead' = FALSE
         /\ m' = mm /\ st' = e.o.st
         /\ nb' = { [r EXCEPT !.trace = e.t] : r \in
                                MapBad(GetOK(e.o, mm), "New: Get on a fresh tree returns a value")
                                \cup MapBad(Len(e.o.it) = 0, "New: IterateKV on a fresh tree visits something") }
         /\ nd' = { [r EXCEPT !.trace = e.t] : r \in Drift(e, t0, "New") }
         /\ pm' = PmNext(e, t0)
    [] e.ev = "Set" /\ ~dead ->
         LET mm == TM!MSet(m, e.k, e.v)
             t == IF PmOn THEN TreeSet(pm, e.k, e.v) ELSE pm IN
         /\ nb' = Judge("Set", e.o, mm)
                       \* C16: recycled pages are reused - the frontier only moves when no free page is left
                       \cup (IF reopened /\ st.nlk >= 0
                               THEN Flag(e.o.st.np > st.np => e.o.st.npf = 0, "C16",
                                         "Set after reopen: the file grew although recycled pages were available")
                               ELSE {})
         /\ m' = Shown(e.o) /\ st' = e.o.st
         /\ nd' = Drift(e, t, "Set") /\ pm' = PmNext(e, t)
         /\ UNCHANGED <<tid, u, pers, reopened, dead>>
    [] e.ev = "SetMany" /\ ~dead ->
         LET In(k) == \E i \in 1..Len(e.runs) : e.runs[i][1] <= k /\ k <= e.runs[i][2]
             mm == [k \in 1..u |-> IF In(k) THEN e.v ELSE m[k]] IN
         /\ nb' = Judge("Set", e.o, mm)
         /\ m' = Shown(e.o) /\ st' = e.o.st
         /\ pm' = [err |-> "off"]
         /\ nd' = {}
         /\ UNCHANGED <<tid, u, pers, reopened, dead>>
    [] e.ev = "Del" /\ ~dead ->
         LET mm == TM!MDeleteBelow(m, e.ts)
             o == e.o
             D == {k \in 1..u : o.g[k] # mm[k]}
             lmax == {e.lmax[i] : i \in 1..Len(e.lmax)}
             \* signature of finding F2: the key should be gone, is still answered with exactly the value it
             \* had, that value is below the threshold, and the key was the max key of a leaf
             Stale(k) == m[k] # 0 /\ m[k] < e.ts /\ o.g[k] = m[k] /\ k \in lmax
             onlyStale == D # {} /\ (\A k \in D : Stale(k)) /\ IterOK(o, Shown(o))
             t == IF PmOn THEN TreeDeleteBelow(pm, e.ts) ELSE pm
         IN
         /\ nb' =
               (IF D = {} /\ IterOK(o, mm) THEN {}
                ELSE IF onlyStale
                  THEN MapBad(FALSE, "DeleteBelow: a leaf's max key whose value is below the threshold is still returned with its stale value")
                  ELSE MapBad(D = {}, "DeleteBelow: did not remove exactly the keys whose value is below the threshold")
                       \cup MapBad(IterOK(o, Shown(o)), "DeleteBelow: IterateKV does not visit every live pair exactly once"))
         /\ m' = Shown(o) /\ st' = o.st
         /\ nd' = Drift(e, t, "DeleteBelow") /\ pm' = PmNext(e, t)
         /\ UNCHANGED <<tid, u, pers, reopened, dead>>
    [] e.ev = "Rw" /\ ~dead ->
         LET vis == e.vis
             vp == {<<vis[i][1], vis[i][2]>> : i \in 1..Len(vis)}
             New(k) == LET i == CHOOSE j \in 1..Len(vis) : vis[j][1] = k IN vis[i][3]
             mm == [k \in 1..u |-> IF (\E j \in 1..Len(vis) : vis[j][1] = k) /\ m[k] # 0 /\ New(k) # 0 THEN New(k) ELSE m[k]]
             F(k, v) == IF \E j \in 1..Len(vis) : vis[j][1] = k /\ vis[j][2] = v THEN New(k) ELSE 0
             t == IF PmOn THEN TreeIterateKV(pm, F) ELSE pm
         IN
         /\ nb' = MapBad(Len(vis) = Cardinality(TM!Live(m)) /\ vp = TM!Pairs(m),
                                   "IterateKV: the callback did not see every live pair exactly once")
                       \cup Judge("IterateKV rewrite", e.o, mm)
         /\ m' = Shown(e.o) /\ st' = e.o.st
         /\ nd' = Drift(e, t, "IterateKV") /\ pm' = PmNext(e, t)
         /\ UNCHANGED <<tid, u, pers, reopened, dead>>
    [] e.ev = "Reset" /\ ~dead ->
         LET mm == TM!MEmpty(1..u)
             t == IF PmOn THEN TreeReset(pm, e.minsize) ELSE pm IN
         /\ nb' = Judge("Reset", e.o, mm)
         /\ m' = Shown(e.o) /\ st' = e.o.st
         /\ nd' = Drift(e, t, "Reset") /\ pm' = PmNext(e, t)
         /\ UNCHANGED <<tid, u, pers, reopened, dead>>
    [] e.ev = "Reopen" /\ ~dead ->
         LET t == IF PmOn THEN TreeReopen(pm) ELSE pm IN
         /\ nb' = Flag(GetOK(e.o, m) /\ IterOK(e.o, m), "C16",
                                 "Reopen: the reopened tree does not hold the same key-value mapping")
                       \cup Flag(StatsSame(st, e.o.st), "C16",
                                 "Reopen: key-count / page statistics differ from those before Close")
         /\ reopened' = TRUE
         /\ m' = Shown(e.o) /\ st' = e.o.st
         /\ nd' = Drift(e, t, "Reopen") /\ pm' = PmNext(e, t)
         /\ UNCHANGED <<tid, u, pers, dead>>
    [] e.ev = "BNew" ->
         LET lv == [v \in 1..e.w |-> 0] IN
         /\ tid' = e.t /\ u' = e.u /\ pers' = e.pers /\ reopened' = FALSE /\ dead' = FALSE
         /\ m' = lv /\ st' = e.c.st /\ pm' = [err |-> "off"] /\ nd' = {}
         /\ nb' = { [r EXCEPT !.trace = e.t] : r \in BJudge("New", e.c, lv) }
    [] e.ev = "BSet" /\ ~dead ->
         LET lv == [v \in 1..Len(m) |-> m[v] + e.add[v]] IN
         /\ nb' = BJudge("Set", e.c, lv)
         /\ m' = lv /\ st' = e.c.st /\ nd' = {}
         /\ UNCHANGED <<tid, u, pers, reopened, dead, pm>>
    [] e.ev = "BDel" /\ ~dead ->
         LET lv == [v \in 1..Len(m) |-> IF v < e.ts THEN 0 ELSE m[v]] IN
         /\ nb' = (IF BGetOK(e.c) THEN {} ELSE MapBad(FALSE, "DeleteBelow: did not remove exactly the keys whose value is below the threshold"))
                  \cup MapBad(BIterOK(e.c, lv), "DeleteBelow: IterateKV does not visit every live pair exactly once")
         /\ m' = lv /\ st' = e.c.st /\ nd' = {}
         /\ UNCHANGED <<tid, u, pers, reopened, dead, pm>>
    [] e.ev = "BReopen" /\ ~dead ->
         /\ nb' = Flag(BGetOK(e.c) /\ BIterOK(e.c, m), "C16",
                        "Reopen: the reopened tree does not hold the same key-value mapping")
                  \cup Flag(StatsSame(st, e.c.st), "C16",
                            "Reopen: key-count / page statistics differ from those before Close")
         /\ reopened' = TRUE /\ st' = e.c.st /\ nd' = {}
         /\ UNCHANGED <<tid, u, pers, dead, m, pm>>
    [] e.ev = "Panic" /\ ~dead ->
         /\ nb' =
              (IF e.in = "Reopen"
                 THEN (IF e.sbo /\ e.reinit
                         THEN {Rec("C16", "Reopen: panic, slice bounds out of range inside reinit")}
                         ELSE {Rec("C16", "Reopen: panic")})
                 \* signature of finding F10: a memory fault raised in Tree.Set itself (its root-split path; not in
                 \* set / split / newNode) on a file-backed tree, during a Set in which the file was extended
                 ELSE IF e.in = "Set" /\ pers /\ e.fault /\ e.moved /\ e.frame = "Set"
                   THEN MapBad(FALSE, "Set: memory fault in Tree.Set's root split after the file mapping moved")
                 ELSE MapBad(FALSE, e.in \o ": panic"))
         /\ dead' = TRUE /\ pm' = [err |-> "off"]
         /\ nd' = {}
         /\ UNCHANGED <<tid, u, pers, m, st, reopened>>
    [] e.ev = "Panic" /\ dead ->      \* the constructor itself panicked: there is no New event
         /\ nb' = {[at |-> l, trace |-> e.t, why |-> e.in \o ": panic", prop |-> "C10"]}
         /\ nd' = {}
         /\ UNCHANGED <<tid, u, pers, m, st, reopened, dead, pm>>

\* accumulation: the state stays small however many events are rejected (a known finding can be hit
\* thousands of times): at most Cap records per (prop, why) are kept, the counts are exact
Cap == 25
AddCapped(S, N) == S \cup {r \in N : Cardinality({b \in S : b.why = r.why /\ b.prop = r.prop}) < Cap}
CountUp(c, N) == LET ks == {<<r.prop, r.why>> : r \in N} IN
                 [x \in DOMAIN c \cup ks |-> (IF x \in DOMAIN c THEN c[x] ELSE 0) + Cardinality({r \in N : <<r.prop, r.why>> = x})]
Acc == /\ bad' = AddCapped(bad, nb) /\ drift' = AddCapped(drift, nd) /\ cnt' = CountUp(cnt, nb \cup nd)

Next == /\ l <= Len(Trace)
        /\ l' = l + 1
        /\ Step(Trace[l])
        /\ Acc

Spec == Init /\ [][Next]_vars

\* printed once, from the state that has consumed the whole trace
Report == (l = Len(Trace) + 1) =>
            PrintT(<<"OBS-RESULT", AddCapped(bad, nb), AddCapped(drift, nd), CountUp(cnt, nb \cup nd)>>)
=============================================================================
