\* Simulation of TreePages.tla beyond the exhaustive bounds (root splits, three-level trees, page
\* recycling and reuse, file growth); invariants are checked on every simulated state and the
\* behaviours are replayed on the real tree.  Persistent and the Fix* lines are overwritten by the check.
SPECIFICATION Spec
CONSTANTS
  NKeys = 12
  NVals = 3
  MaxOps = 40
  MK = 4
  PS = 80
  MinSize = 400
  Persistent = FALSE
  WithRewrite = TRUE
  WithReset = TRUE
  FixStaleMax = FALSE
  FixReinitBound = FALSE
INVARIANTS NoError Sorted MapRefinement IterateExact NoLeak InBoundsAll ReopenNoPanic ReopenSame
CHECK_DEADLOCK FALSE
