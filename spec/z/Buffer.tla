------------------------------- MODULE Buffer -------------------------------
(* Design specification of z.Buffer (z/buffer.go; mmap side: z/file.go, z/file_linux.go).

   Two layers are kept apart so that the invariants say something:

     written  (ghost)     the records the client wrote since the last Reset, in order:
                          [k |-> "raw" | "slice", id, n]   (id = payload identity, n = payload length)
     mem      (physical)  the backing slice b.buf[0:curSz] as a sequence of runs
                          [t |-> "pad" | "hdr" | "pay" | "free" | "junk", id, n]:
                            pad   the 8 bytes of padding every buffer starts with (offset starts at 8)
                            hdr   an 8-byte big-endian length prefix; id = the length it encodes
                            pay   the n payload bytes of record id
                            free  zero bytes never written
                            junk  remains of an overwritten or cut record
                          offset (= b.offset, LenWithPadding) always sits on a run boundary.

   One action per public operation; Grow - the growth rule, the automatic switch to an mmapped file and
   the WithMaxSize panic - is BufferOps!GrowF/OpGrow, transcribed from the code.  Reallocation in calloc
   mode (and the switch) copies b.buf[:offset] into a fresh zeroed slice; in mmap mode the file is
   truncated and remapped, so stale bytes beyond offset survive - both as in the code.

   Sizes are symbolic (Syms), resolved against the current capacity, offset and limit, so that TLC's
   behaviours straddle offset+n = curSz, the mmap switch and maxSz +/- 1; the harness resolves the
   same symbols against the live buffer.

   The sorter is abstract here (any permutation of the range sorted by the comparator); its
   implementation-shaped model (chunks of ChunkN slices, sort.Slice per chunk, merge tree through a
   scratch buffer) is BufferSort.tla.                                                         *)
EXTENDS Integers, Sequences, FiniteSets, TLC, BufferOps

CONSTANTS InitCap,   \* capacity handed to the constructor (>= 64 = defaultCapacity in the code)
          Pad,       \* 8: padding, also StartOffset()
          Hdr,       \* 8: bytes of a slice's length prefix
          GrowCap,   \* 1<<30 in the code ("don't allocate more than 1GB at a time")
          MaxSzs,    \* WithMaxSize values tried (0 = no limit)
          Autos,     \* WithAutoMmap thresholds tried for calloc buffers (0 = off)
          MaxOps,    \* bound on behaviour length
          CapBound,  \* the size symbol "2cap" is offered only while curSz <= CapBound
          Cmps,      \* comparators offered to the sorter: subset of {"len", "lenrev", "const"}
          MaxSort    \* the sorter is offered ranges of at most MaxSort slices (it is specified through Permutations)

VARIABLES mode, curSz, offset, maxSz, auto,   \* b.bufType, b.curSz, b.offset, b.maxSz, b.autoMmapAfter
          mem, written, kind,                 \* kind: "none" | "raw" | "framed" (the API forbids mixing)
          nextId, ops, last

vars == <<mode, curSz, offset, maxSz, auto, mem, written, kind, nextId, ops, last>>

Syms == {"0", "1", "7", "8", "9", "room-1", "room", "room+1", "2cap", "max-1", "max", "max+1"}

\* n for a size symbol; hdr = 8 for the framed operations, 0 otherwise; negative = not offered
Resolve(sym, hdr) ==
  LET room  == curSz - offset - hdr
      mroom == maxSz - offset - hdr
  IN CASE sym = "0" -> 0 [] sym = "1" -> 1 [] sym = "7" -> 7 [] sym = "8" -> 8 [] sym = "9" -> 9
       [] sym = "room-1" -> room - 1
       [] sym = "room"   -> room
       [] sym = "room+1" -> room + 1
       [] sym = "2cap"   -> IF curSz <= CapBound THEN 2 * curSz ELSE -1
       [] sym = "max-1"  -> IF maxSz > 0 THEN mroom - 1 ELSE -1
       [] sym = "max"    -> IF maxSz > 0 THEN mroom ELSE -1
       [] sym = "max+1"  -> IF maxSz > 0 THEN mroom + 1 ELSE -1

(* ---------------------------------- runs ---------------------------------- *)
Run(t, id, n) == [t |-> t, id |-> id, n |-> n]
Part(r, k) == IF r.t = "free" THEN Run("free", 0, k) ELSE Run("junk", 0, k)   \* a cut record is junk

RECURSIVE RunsLen(_), Take(_, _), Drop(_, _), Norm(_)
RunsLen(rs) == IF rs = <<>> THEN 0 ELSE Head(rs).n + RunsLen(Tail(rs))
Take(rs, k) == IF k <= 0 \/ rs = <<>> THEN <<>>
               ELSE IF Head(rs).n <= k THEN <<Head(rs)>> \o Take(Tail(rs), k - Head(rs).n)
               ELSE <<Part(Head(rs), k)>>
Drop(rs, k) == IF rs = <<>> THEN <<>>
               ELSE IF k <= 0 THEN rs
               ELSE IF Head(rs).n <= k THEN Drop(Tail(rs), k - Head(rs).n)
               ELSE <<Part(Head(rs), Head(rs).n - k)>> \o Tail(rs)
\* canonical form: no empty runs, adjacent free / junk runs merged
Norm(rs) == IF rs = <<>> THEN <<>>
            ELSE IF Head(rs).n = 0 THEN Norm(Tail(rs))
            ELSE LET rest == Norm(Tail(rs)) IN
                 IF rest # <<>> /\ Head(rs).t \in {"free", "junk"} /\ Head(rest).t = Head(rs).t
                   THEN <<Run(Head(rs).t, 0, Head(rs).n + Head(rest).n)>> \o Tail(rest)
                   ELSE <<Head(rs)>> \o rest

\* copy(b.buf[at:], runs)
Put(m, at, runs) == Take(m, at) \o runs \o Drop(m, at + RunsLen(runs))

(* Grow's reallocation.  calloc (and the switch to a new mmapped file):
       newBuf := Calloc(b.curSz); copy(newBuf, b.buf[:b.offset])
   mmap:  b.mmapFile.Truncate(b.curSz) (ftruncate + mremap): the old contents stay, zeros follow.  *)
Resize(m, oldSz, newSz, oldMode, off) ==
  IF newSz = oldSz THEN m
  ELSE IF oldMode = "mmap" THEN m \o <<Run("free", 0, newSz - oldSz)>>
  ELSE Take(m, off) \o <<Run("free", 0, newSz - off)>>

(* ------------------------------ encodings / views ------------------------------ *)
Pay(id, n) == IF n = 0 THEN <<>> ELSE <<Run("pay", id, n)>>
Enc(r) == IF r.k = "raw" THEN Pay(r.id, r.n) ELSE <<Run("hdr", r.n, Hdr)>> \o Pay(r.id, r.n)
RECURSIVE EncAll(_)
EncAll(w) == IF w = <<>> THEN <<>> ELSE Enc(Head(w)) \o EncAll(Tail(w))

\* b.Bytes() = b.buf[b.padding:b.offset]
Bytes == Drop(Take(mem, offset), Pad)

\* walking the length prefixes as Slice(offset) does: <<id, n>> per slice (id 0 for an empty one),
\* "garbage" as soon as the bytes are not a well-formed prefix + payload
RECURSIVE Parse(_)
Parse(rs) ==
  IF rs = <<>> THEN <<>>
  ELSE IF Head(rs).t # "hdr" THEN <<"garbage">>
  ELSE LET v == Head(rs).id   rest == Tail(rs) IN
       IF v = 0 THEN <<<<0, 0>>>> \o Parse(rest)
       ELSE IF rest # <<>> /\ Head(rest).t = "pay" /\ Head(rest).n = v
              THEN <<<<Head(rest).id, v>>>> \o Parse(Tail(rest))
              ELSE <<"garbage">>

NonEmpty(s) == SelectSeq(s, LAMBDA x : x # <<0, 0>>)
\* SliceIterate: returns at once on an empty buffer, skips slices of length 0
IterView == IF offset = Pad THEN <<>> ELSE NonEmpty(Parse(Bytes))
\* the records as slices: id 0 for the empty ones (they have no bytes to tell them apart)
SliceView(w) == [i \in DOMAIN w |-> <<IF w[i].n = 0 THEN 0 ELSE w[i].id, w[i].n>>]
\* SliceOffsets: for next >= 0 { append(next); _, next = Slice(next) }  - an EMPTY buffer yields <<Pad>>,
\* the offset of a slice that does not exist (Slice(Pad) = nil, -1)
RECURSIVE OffsFrom(_, _)
OffsFrom(w, at) == IF w = <<>> THEN <<>> ELSE <<at>> \o OffsFrom(Tail(w), at + Hdr + Head(w).n)
OffsView == IF written = <<>> THEN <<Pad>> ELSE OffsFrom(written, Pad)

RECURSIVE SizeOf(_)
SizeOf(w) == IF w = <<>> THEN 0
             ELSE (IF Head(w).k = "slice" THEN Hdr ELSE 0) + Head(w).n + SizeOf(Tail(w))

(* ---------------------------------- actions ---------------------------------- *)
Init ==
  /\ mode \in {"calloc", "mmap"}
  /\ maxSz \in MaxSzs
  /\ auto \in (IF mode = "calloc" THEN Autos ELSE {0})
  /\ curSz = InitCap /\ offset = Pad
  /\ mem = <<Run("pad", 0, Pad), Run("free", 0, InitCap - Pad)>>
  /\ written = <<>> /\ kind = "none" /\ nextId = 1 /\ ops = 0
  /\ last = [op |-> "New", n |-> 0, panic |-> FALSE, pre |-> Pad, inner |-> FALSE, lo |-> 0, hi |-> 0, cmp |-> "none"]

Do(op, sym) ==
  LET fr  == Framed(op)
      n   == Resolve(sym, IF fr THEN Hdr ELSE 0)
      g   == OpGrow(op, n, Hdr, curSz, mode, offset, maxSz, auto, GrowCap)
      new == IF fr THEN <<Run("hdr", n, Hdr)>> \o Pay(nextId, n) ELSE Pay(nextId, n)
  IN /\ ops < MaxOps /\ n >= 0
     /\ kind \in {"none", IF fr THEN "framed" ELSE "raw"}
     /\ ops' = ops + 1
     /\ last' = [op |-> op, n |-> n, panic |-> g.panic, pre |-> offset, inner |-> g.inner, lo |-> 0, hi |-> 0, cmp |-> "none"]
     /\ UNCHANGED <<maxSz, auto>>
     /\ IF g.panic
          THEN UNCHANGED <<mode, curSz, offset, mem, written, kind, nextId>>
          ELSE /\ curSz' = g.curSz /\ mode' = g.mode /\ offset' = g.off
               /\ mem' = Norm(Put(Resize(mem, curSz, g.curSz, mode, offset), offset, new))
               /\ written' = Append(written, [k |-> IF fr THEN "slice" ELSE "raw", id |-> nextId, n |-> n])
               /\ kind' = IF fr THEN "framed" ELSE "raw"
               /\ nextId' = nextId + 1

Write(sym)          == Do("Write", sym)
Allocate(sym)       == Do("Allocate", sym)          \* the caller fills the returned slice at once
AllocateOffset(sym) == Do("AllocateOffset", sym)    \* the caller fills Data(off)[:n] at once
WriteSlice(sym)     == Do("WriteSlice", sym)
SliceAllocate(sym)  == Do("SliceAllocate", sym)

Reset ==
  /\ ops < MaxOps /\ ops' = ops + 1
  /\ offset' = Pad /\ written' = <<>> /\ kind' = "none"
  /\ last' = [op |-> "Reset", n |-> 0, panic |-> FALSE, pre |-> offset, inner |-> FALSE, lo |-> 0, hi |-> 0, cmp |-> "none"]
  /\ UNCHANGED <<mode, curSz, maxSz, auto, mem, nextId>>

Key(c, r) == CASE c = "len" -> r.n [] c = "lenrev" -> 0 - r.n [] c = "const" -> 0
Less(c, a, b) == Key(c, a) < Key(c, b)
SortedRange(c, w, i, j) == \A x \in (i + 1)..(j - 1) : ~Less(c, w[x + 1], w[x])
\* every arrangement of w[i+1..j] that is sorted by c (the rest untouched)
SortedArrangements(c, w, i, j) ==
  LET S == (i + 1)..j
      Re(p) == [x \in 1..Len(w) |-> IF x \in S THEN w[p[x]] ELSE w[x]]
  IN {Re(p) : p \in {q \in Permutations(S) : SortedRange(c, Re(q), i, j)}}

SortBody(name, i, j, c) ==
  /\ ops < MaxOps /\ ops' = ops + 1
  /\ kind = "framed"
  /\ \E w \in SortedArrangements(c, written, i, j) :
       /\ written' = w
       /\ mem' = Norm(Take(mem, Pad) \o EncAll(w) \o Drop(mem, offset))
  /\ last' = [op |-> name, n |-> 0, panic |-> FALSE, pre |-> offset, inner |-> FALSE, lo |-> i, hi |-> j, cmp |-> c]
  /\ UNCHANGED <<mode, curSz, offset, maxSz, auto, kind, nextId>>

SortSlice(c) == Len(written) <= MaxSort /\ SortBody("SortSlice", 0, Len(written), c)
\* start / end are offsets of slice boundaries: start = offset of slice i+1, end = end of slice j
SortSliceBetween(i, j, c) == /\ i < j /\ j <= Len(written) /\ j - i <= MaxSort /\ ~(i = 0 /\ j = Len(written))
                             /\ SortBody("SortSliceBetween", i, j, c)

Next == \/ \E s \in Syms : Write(s) \/ Allocate(s) \/ AllocateOffset(s) \/ WriteSlice(s) \/ SliceAllocate(s)
        \/ Reset
        \/ \E c \in Cmps : SortSlice(c)
        \/ \E c \in Cmps : \E i \in 0..MaxOps : \E j \in 1..MaxOps : SortSliceBetween(i, j, c)

Spec == Init /\ [][Next]_vars

(* ------------------------------ properties (C11) ------------------------------ *)
\* the backing slice is exactly curSz long; offset is inside it (Grow leaves offset+n < curSz, strictly)
MemCoversCap == RunsLen(mem) = curSz
OffsetInside == Pad <= offset /\ offset < curSz
\* Bytes() = what was written, in order
BytesOK == Bytes = Norm(EncAll(written))
\* the slice views = the slices written; SliceIterate = the non-empty ones, intact and in order
SlicesOK == kind = "framed" =>
              /\ Parse(Bytes) = SliceView(written)
              /\ IterView = NonEmpty(SliceView(written))
              /\ Len(OffsView) = Len(written)
EmptyViews == written = <<>> => (IterView = <<>> /\ OffsView = <<Pad>> /\ Bytes = <<>>)
\* LenNoPadding = offset - padding = total size of the records
LenOK == offset - Pad = SizeOf(written)
\* a limited buffer never holds more than the limit ...
WithinMax == maxSz > 0 => offset <= maxSz
\* ... and the call that would take it beyond the limit - and only that call - panics, changing nothing
PanicOK == last.op \in {"Write", "Allocate", "AllocateOffset", "WriteSlice", "SliceAllocate"} =>
             (last.panic <=> (maxSz > 0 /\ last.pre + Need(last.op, last.n, Hdr) > maxSz))
PanicChangesNothing == [][last'.panic => UNCHANGED <<mode, curSz, offset, mem, written>>]_vars
\* the nested Grow calls of SliceAllocate never grow again
InnerGrowIdle == ~last.inner
\* calloc until the capacity crosses the threshold, mmap from then on
ModeOK == /\ (mode = "calloc" /\ auto > 0) => curSz <= auto \/ curSz = InitCap
          /\ (mode = "mmap" /\ auto > 0) => curSz > auto
OnceMmapAlwaysMmap == [][mode = "mmap" => mode' = "mmap"]_vars
CapacityMonotone == [][curSz' >= curSz]_vars
\* sort: a permutation of the same slices inside the range, ordered by the comparator; nothing else moves
IsPermOf(a, b) == Len(a) = Len(b) /\ \E p \in Permutations(DOMAIN a) : \A x \in DOMAIN a : a[x] = b[p[x]]
SortOK == [][last'.op \in {"SortSlice", "SortSliceBetween"} =>
               /\ IsPermOf(SubSeq(written', last'.lo + 1, last'.hi), SubSeq(written, last'.lo + 1, last'.hi))
               /\ SortedRange(last'.cmp, written', last'.lo, last'.hi)
               /\ SubSeq(written', 1, last'.lo) = SubSeq(written, 1, last'.lo)
               /\ SubSeq(written', last'.hi + 1, Len(written)) = SubSeq(written, last'.hi + 1, Len(written))
               /\ offset' = offset /\ curSz' = curSz]_vars

(* NOT a property of the code (left out of every cfg; TLC finds a 2-state counterexample):
   the CAPACITY of a limited buffer may exceed the limit - only the used length is checked.  E.g.
   InitCap 64, maxSz 100, Write of 56 bytes: offset 64 <= 100, curSz becomes 64 + 64 + 56 = 184.     *)
CapacityWithinMax == maxSz > 0 => curSz <= maxSz \/ curSz = InitCap
=============================================================================
