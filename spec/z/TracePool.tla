------------------------------ MODULE TracePool ------------------------------
(* Trace specification for z.AllocatorPool: consumes trace.ndjson recorded from the real pool by
   harness/z/pool_test.go.txt (behaviours of Pool.tla and seeded random histories driven through the real
   pool inside a synctest bubble: the 2 s ticker of the freeup goroutine runs on the fake clock).

   Not tied to a listed property: everything is reported as conformance drift.  Every step of the pool is
   deterministic given the history (FIFO channel, one tick per Tick event), so the trace is compared with
   the design model Pool.tla state by state:
     Get     - the allocator handed out (small id, by first appearance; fresh = never seen before)
     plen    - len(allocCh) after the step
     live    - ids still registered in z's allocator table (= not released)
   and, at interface level: an allocator that is held or released is never handed out; nothing stays
   registered after Release unless a client still holds it.

   Events:  New{t, cap}  Get{c, id, fresh, plen, live}  Return{c, id, plen, live}  Tick{plen, live}
            Release{plen, live}                                                                    *)
EXTENDS Naturals, Sequences, FiniteSets, TLC, Json

Trace == ndJsonDeserialize("trace.ndjson")

VARIABLES l, tid, cap, pool, held, released, seen, gets, last, closed, drift
vars == <<l, tid, cap, pool, held, released, seen, gets, last, closed, drift>>

ToSet(s) == {s[i] : i \in DOMAIN s}
Flag(cond, why) == IF cond THEN {} ELSE {[at |-> l, trace |-> tid, why |-> why]}

Init == /\ l = 1 /\ tid = 0 /\ cap = 0 /\ pool = <<>> /\ held = {} /\ released = {} /\ seen = {}
        /\ gets = 0 /\ last = 0 /\ closed = FALSE /\ drift = {}

Check(e, p2, h2, r2) ==
  Flag(e.plen = Len(p2), "pool: number of pooled allocators differs from the design model")
  \cup Flag(ToSet(e.live) = (seen \cup (IF e.ev = "Get" THEN {e.id} ELSE {})) \ r2,
            "pool: the set of allocators that still own memory differs from the design model (leak or early release)")

Step(e) ==
  CASE e.ev = "New" ->
         /\ tid' = e.t /\ cap' = e.cap /\ pool' = <<>> /\ held' = {} /\ released' = {} /\ seen' = {}
         /\ gets' = 0 /\ last' = 0 /\ closed' = FALSE
         /\ UNCHANGED drift
    [] e.ev = "Get" ->
         LET want == IF pool # <<>> THEN Head(pool) ELSE Cardinality(seen) + 1
             p2 == IF pool # <<>> THEN Tail(pool) ELSE pool
         IN
         /\ pool' = p2 /\ held' = held \cup {e.id} /\ seen' = seen \cup {e.id} /\ gets' = gets + 1
         /\ drift' = drift \cup Flag(e.id \notin held, "pool: Get handed out an allocator that somebody still holds")
                           \cup Flag(e.id \notin released, "pool: Get handed out an allocator whose memory was released")
                           \cup Flag(e.id = want, "pool: Get did not hand out the allocator the design model expects (oldest pooled one, else a new one)")
                           \cup Flag(e.fresh = (e.id \notin seen), "pool: fresh flag")
                           \cup Check(e, p2, held', released)
         /\ UNCHANGED <<tid, cap, released, last, closed>>
    [] e.ev = "Return" ->
         LET full == Len(pool) >= cap
             p2 == IF full THEN pool ELSE Append(pool, e.id)
             r2 == IF full THEN released \cup {e.id} ELSE released
         IN
         /\ pool' = p2 /\ released' = r2 /\ held' = held \ {e.id}
         /\ drift' = drift \cup Check(e, p2, held', r2)
         /\ UNCHANGED <<tid, cap, seen, gets, last, closed>>
    [] e.ev = "Tick" ->
         LET moved == gets # last
             p2 == IF ~moved /\ pool # <<>> THEN Tail(pool) ELSE pool
             r2 == IF ~moved /\ pool # <<>> THEN released \cup {Head(pool)} ELSE released
         IN
         /\ last' = gets /\ pool' = p2 /\ released' = r2
         /\ drift' = drift \cup Check(e, p2, held, r2)
         /\ UNCHANGED <<tid, cap, held, seen, gets, closed>>
    [] e.ev = "Release" ->
         LET r2 == released \cup ToSet(pool) IN
         /\ pool' = <<>> /\ released' = r2 /\ closed' = TRUE
         /\ drift' = drift \cup Check(e, <<>>, held, r2)
                           \cup Flag(ToSet(e.live) \subseteq held, "pool: memory still owned by the pool after Release returned")
         /\ UNCHANGED <<tid, cap, held, seen, gets, last>>

Next == /\ l <= Len(Trace)
        /\ l' = l + 1
        /\ Step(Trace[l])

Spec == Init /\ [][Next]_vars

Report == (l = Len(Trace) + 1) => PrintT(<<"OBS-RESULT", {}, drift>>)
=============================================================================
