SPECIFICATION Spec
CONSTANTS
  InitCap = 64
  Pad = 8
  Hdr = 8
  GrowCap = 1073741824
  MaxSzs = {0, 40, 100}
  Autos = {0, 184}
  MaxOps = 5
  CapBound = 300
  Cmps = {"len", "lenrev", "const"}
  MaxSort = 5
INVARIANTS MemCoversCap OffsetInside BytesOK SlicesOK EmptyViews LenOK WithinMax PanicOK InnerGrowIdle ModeOK
PROPERTIES PanicChangesNothing OnceMmapAlwaysMmap CapacityMonotone SortOK
