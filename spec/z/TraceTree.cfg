\* Trace validation (observer for C10 / C16).  The Fix* constants only steer the page model used for
\* the conformance comparison (drift); the check overwrites them from tree_toggles.json.
SPECIFICATION Spec
CONSTANTS
  FixStaleMax = FALSE
  FixReinitBound = FALSE
INVARIANT Report
CHECK_DEADLOCK FALSE
