--------------------------- MODULE TraceAllocator ---------------------------
(* Trace specification for z.Allocator: consumes trace.ndjson recorded from the real allocator by
   harness/z/alloc_test.go.txt (gate-scheduled replays of Allocator.tla behaviours and free-running
   goroutines).  Two judgements, kept apart:

     bad   - the recorded history violates property C12 as stated: a call returned a slice whose
             length is not the requested one, a region that overlaps another region handed out
             since the last Reset or that is not inside a chunk, a chunk that moved / changed size, a
             handed region whose bytes were overwritten before the Reset, an AllocateAligned result
             that is not 8-byte aligned or not zero, a Copy that differs from its source, a
             sequential replay of the same requests after Reset that acquired more memory, a call
             that panicked or did not return;
     drift - the white-box log (value returned by every atomic add, slow-path decisions, chunk table
             at quiescent points, raw region of every call) differs from the design model
             Allocator.tla replayed on the same inputs.  Reported, never a failure.

   Events (one JSON object per line; positions are logged as (chunk index, offset), never as the
   64-bit word; chunk base addresses as small ids):
     New{t, c0, chunks, alloc}        new allocator = new trace; chunks = [[idx, baseId, len, cap]...]
     Phase{conc}                      the following calls were made by conc goroutines
     Add{g, sz, bi, pi}               atomic add returned (bi, pi)          -- in the order of the values
     Lock{g, bi, pi}                  slow path, lock taken (gate mode only)
     Retry{g, nbi, npi, bi, pi}       slow path decision: index changed, retry (read (nbi, npi))
     Publish{g, idx, len, bi, pi}     slow path decision: (idx, 0) published, len = len(chunk idx)
     Ret{g, n, kind, want, ci, cb, clen, lo, len, cap, abi, api, asz, aligned, zero, equal}
                                      call returned; region = chunk ci (base id cb, length clen) at
                                      offset lo; (abi, api, asz) = the call's last atomic add
     Panic{g, kind, want, msg}        the call panicked
     Hang{g, where}                   the call did not return (still inside the allocator code)
     Intact{ok, n, bad}               sentinel contents of all live handed regions (quiescent point)
     Snap{chunks, alloc}              chunk table and Allocated() at a quiescent point
     Reset{}   Trim{max, chunks, alloc}
     Unsync{}                         from here on the white-box events are not in atomic order
                                      (calls ran without gates after a schedule ended): no drift
                                      judgement until the next New                                   *)
EXTENDS Integers, FiniteSets, Sequences, TLC, Json

CONSTANTS MaxAlloc,            \* 1 << 30
          FixTrimKeepFirst     \* model of TrimTo: FALSE = code as it is, TRUE = repaired (keeps chunk 0)

Trace == ndJsonDeserialize("trace.ndjson")

F7Why == "Hang: Allocate after TrimTo(max) with max <= size of chunk 0 followed by Reset does not return"

VARIABLES l, tid, bad, drift,
          o,      \* observer state (interface level + byte monitors)
          m       \* design-model state (conformance)
vars == <<l, tid, bad, drift, o, m>>

Idx == 0..63
None3 == <<0, 0, 0>>
NoAdd == <<-1, 0, 0>>
Flag(cond, why) == IF cond THEN {} ELSE {[at |-> l, trace |-> tid, why |-> why]}
Min(a, b) == IF a < b THEN a ELSE b
IsPrefix(s, t) == Len(s) <= Len(t) /\ \A i \in 1..Len(s) : s[i] = t[i]

\* [[idx, base, len, cap]...]  ->  function Idx -> <<base, len, cap>>
Table(chs) == [i \in Idx |-> IF \E k \in DOMAIN chs : chs[k][1] = i
                               THEN LET k == CHOOSE kk \in DOMAIN chs : chs[kk][1] = i
                                    IN <<chs[k][2], chs[k][3], chs[k][4]>>
                               ELSE None3]
Lens(tab) == [i \in Idx |-> tab[i][2]]

O0 == [chunks |-> [i \in Idx |-> None3], handed |-> {}, ereqs |-> <<>>, eseq |-> TRUE,
       prev |-> [ok |-> FALSE, reqs |-> <<>>, alloc |-> 0], lastAlloc |-> 0, conc |-> 1,
       trim0 |-> FALSE, trim0reset |-> FALSE]
M0 == [sync |-> TRUE, comp |-> <<0, 0>>, chunks |-> [i \in Idx |-> 0], my |-> [g \in 0..64 |-> NoAdd], mutex |-> 0]

Init == l = 1 /\ tid = 0 /\ bad = {} /\ drift = {} /\ o = O0 /\ m = M0

(* ----------------------------- design model (Allocator.tla) ----------------------------- *)
RECURSIVE Find(_, _, _)
Find(ch, i, minSz) ==
  IF i > 63 THEN <<i, FALSE>>
  ELSE IF ch[i] = 0 THEN <<i, TRUE>>
  ELSE IF minSz <= ch[i] THEN <<i, FALSE>>
  ELSE Find(ch, i + 1, minSz)
RECURSIVE Dbl(_, _)
Dbl(p, minSz) == IF p < minSz THEN Dbl(2 * p, minSz) ELSE p
PageSize(prevLen, minSz) == IF prevLen >= MaxAlloc THEN MaxAlloc ELSE Min(Dbl(2 * prevLen, minSz), MaxAlloc)
\* chunk table after addBufferAt(i, minSz); <<table, ok>> (ok = FALSE: the code cannot get here)
AddBuffer(ch, i, minSz) ==
  LET f == Find(ch, i, minSz) IN
  IF f[1] > 63 THEN <<ch, FALSE>>
  ELSE IF ~f[2] THEN <<ch, TRUE>>
  ELSE IF ch[f[1] - 1] = 0 THEN <<ch, FALSE>>
  ELSE <<[ch EXCEPT ![f[1]] = PageSize(ch[f[1] - 1], minSz)], TRUE>>
RECURSIVE SumTo(_, _)
SumTo(f, i) == IF i < 0 THEN 0 ELSE f[i] + SumTo(f, i - 1)
FirstEmpty(ch) == CHOOSE k \in 0..64 : (k = 64 \/ ch[k] = 0) /\ \A j \in 0..(k - 1) : ch[j] # 0
Freed(ch, max) == {i \in 0..(FirstEmpty(ch) - 1) : SumTo(ch, i) >= max /\ ~(FixTrimKeepFirst /\ i = 0)}
Over(ch, bi, pi) == bi \in Idx /\ pi > ch[bi]

(* ------------------------------------- steps ------------------------------------- *)
D(cond, why) == IF m.sync THEN Flag(cond, why) ELSE {}

Step(e) ==
  CASE e.ev = "New" ->
         /\ tid' = e.t
         /\ o' = [O0 EXCEPT !.chunks = Table(e.chunks), !.lastAlloc = e.alloc]
         /\ m' = [M0 EXCEPT !.chunks = Lens(Table(e.chunks))]
         /\ UNCHANGED <<bad, drift>>
    [] e.ev = "Phase" ->
         /\ o' = [o EXCEPT !.conc = e.conc, !.eseq = o.eseq /\ e.conc = 1]
         /\ UNCHANGED <<tid, bad, drift, m>>
    [] e.ev = "Unsync" ->
         /\ m' = [m EXCEPT !.sync = FALSE]
         /\ UNCHANGED <<tid, bad, drift, o>>
    [] e.ev = "Add" ->
         /\ drift' = drift \cup D(e.bi = m.comp[1] /\ e.pi = m.comp[2] + e.sz, "Add: returned position differs from the model")
         /\ m' = [m EXCEPT !.comp = <<e.bi, e.pi>>, !.my[e.g] = <<e.bi, e.pi, e.sz>>]
         /\ UNCHANGED <<tid, bad, o>>
    [] e.ev = "Lock" ->
         /\ drift' = drift \cup D(m.mutex = 0, "Lock: model mutex is held")
                           \cup D(m.my[e.g][1] = e.bi /\ m.my[e.g][2] = e.pi /\ Over(m.chunks, e.bi, e.pi),
                                  "Lock: slow path taken without an overshoot in the model")
         /\ m' = [m EXCEPT !.mutex = e.g]
         /\ UNCHANGED <<tid, bad, o>>
    [] e.ev = "Retry" ->
         /\ drift' = drift \cup D(m.mutex \in {0, e.g}, "Retry: model mutex is held by another thread")
                           \cup D(<<e.nbi, e.npi>> = m.comp, "Retry: value read differs from the model's position")
                           \cup D(e.nbi # e.bi /\ Over(m.chunks, e.bi, e.pi), "Retry: model decides differently")
         /\ m' = [m EXCEPT !.mutex = 0]
         /\ UNCHANGED <<tid, bad, o>>
    [] e.ev = "Publish" ->
         LET sz == m.my[e.g][3]
             r  == AddBuffer(m.chunks, e.bi + 1, sz) IN
         /\ drift' = drift \cup D(m.mutex \in {0, e.g}, "Publish: model mutex is held by another thread")
                           \cup D(m.my[e.g][1] = e.bi /\ m.my[e.g][2] = e.pi, "Publish: not the thread's last add")
                           \cup D(m.comp[1] = e.bi /\ Over(m.chunks, e.bi, e.pi) /\ e.idx = e.bi + 1, "Publish: model decides differently")
                           \cup D(r[2] /\ r[1][e.idx] = e.len, "Publish: chunk length differs from the model's addBufferAt")
         /\ m' = [m EXCEPT !.mutex = 0, !.comp = <<e.idx, 0>>, !.chunks = r[1]]
         /\ UNCHANGED <<tid, bad, o>>
    [] e.ev = "Ret" ->
         LET r == [ci |-> e.ci, cb |-> e.cb, clen |-> e.clen, lo |-> e.lo, hi |-> e.lo + e.len, g |-> e.g, n |-> e.n] IN
         /\ bad' = bad \cup Flag(e.len = e.want, "Ret: length of the returned slice differs from the request")
                       \cup Flag(e.len > 0 => (e.ci \in Idx /\ e.lo >= 0 /\ e.lo + e.len <= e.clen),
                                 "Ret: returned region is not inside a chunk of the allocator")
                       \cup Flag(e.len > 0 => \A h \in o.handed : h.ci # r.ci \/ h.hi <= r.lo \/ r.hi <= h.lo,
                                 "Ret: region overlaps a region handed out since the last Reset")
                       \cup Flag(e.kind = "aligned" => e.aligned, "Ret: AllocateAligned result is not 8-byte aligned")
                       \cup Flag(e.kind = "aligned" => e.zero, "Ret: AllocateAligned result is not zeroed")
                       \cup Flag(e.kind = "copy" => e.equal, "Ret: Copy result differs from its source")
         /\ drift' = drift \cup (IF e.len > 0 /\ e.ci \in Idx THEN
                                   D(e.abi = e.ci /\ e.api <= m.chunks[e.ci] /\ e.lo >= e.api - e.asz /\ e.lo + e.len <= e.api
                                       /\ (e.kind # "aligned" => (e.lo = e.api - e.asz /\ e.len = e.asz)),
                                     "Ret: region is not the one the model derives from the call's atomic add")
                                   \cup D(e.cap = e.clen - e.lo, "Ret: capacity differs from chunk length - offset")
                                 ELSE {})
         /\ o' = [o EXCEPT !.handed = IF e.len > 0 /\ e.ci \in Idx THEN o.handed \cup {r} ELSE o.handed,
                           !.ereqs = IF o.conc = 1 THEN Append(o.ereqs, <<e.kind, e.want>>) ELSE o.ereqs]
         /\ UNCHANGED <<tid, m>>
    [] e.ev = "Panic" ->
         /\ bad' = bad \cup Flag(FALSE, "Panic: a call panicked")
         /\ o' = [o EXCEPT !.eseq = FALSE]
         /\ UNCHANGED <<tid, drift, m>>
    [] e.ev = "Hang" ->
         /\ bad' = bad \cup Flag(FALSE, IF o.trim0 /\ o.trim0reset /\ o.chunks[0] = None3 THEN F7Why
                                        ELSE "Hang: a call did not return")
         /\ o' = [o EXCEPT !.eseq = FALSE]
         /\ UNCHANGED <<tid, drift, m>>
    [] e.ev = "Intact" ->
         /\ bad' = bad \cup Flag(e.ok, "Intact: a handed region was overwritten before the Reset")
         /\ UNCHANGED <<tid, drift, o, m>>
    [] e.ev = "Snap" ->
         LET tab == Table(e.chunks) IN
         /\ bad' = bad \cup Flag(\A i \in Idx : o.chunks[i] # None3 => tab[i] = o.chunks[i],
                                 "Snap: a chunk moved, changed size or vanished")
                       \cup Flag(\A h \in o.handed : tab[h.ci][1] = h.cb /\ tab[h.ci][2] = h.clen,
                                 "Snap: the chunk of a handed region moved or changed size")
                       \cup Flag((o.prev.ok /\ o.eseq /\ IsPrefix(o.ereqs, o.prev.reqs)) => e.alloc = o.prev.alloc,
                                 "Snap: replaying the same requests after Reset acquired more memory")
         /\ drift' = drift \cup D(Lens(tab) = m.chunks, "Snap: chunk lengths differ from the model")
         /\ o' = [o EXCEPT !.chunks = tab, !.lastAlloc = e.alloc]
         /\ m' = [m EXCEPT !.chunks = Lens(tab)]
         /\ UNCHANGED <<tid>>
    [] e.ev = "Reset" ->
         /\ o' = [o EXCEPT !.handed = {}, !.ereqs = <<>>, !.eseq = TRUE,
                           !.prev = [ok |-> o.eseq, reqs |-> o.ereqs, alloc |-> o.lastAlloc],
                           !.trim0reset = o.trim0]
         /\ m' = [m EXCEPT !.comp = <<0, 0>>, !.my = [g \in 0..64 |-> NoAdd]]
         /\ UNCHANGED <<tid, bad, drift>>
    [] e.ev = "Trim" ->
         LET tab   == Table(e.chunks)
             first == o.chunks[0] # None3 /\ tab[0] = None3 /\ e.max <= o.chunks[0][2]
             mfree == Freed(m.chunks, e.max) IN
         /\ bad' = bad \cup Flag(\A i \in Idx : (o.chunks[i] # None3 /\ tab[i] # None3) => tab[i] = o.chunks[i],
                                 "Trim: a surviving chunk moved or changed size")
         /\ drift' = drift \cup D(Lens(tab) = [i \in Idx |-> IF i \in mfree THEN 0 ELSE m.chunks[i]],
                                  "Trim: freed chunks differ from the model's TrimTo")
         /\ o' = [o EXCEPT !.chunks = tab, !.lastAlloc = e.alloc,
                           !.handed = {h \in o.handed : tab[h.ci] # None3},
                           !.prev = [o.prev EXCEPT !.ok = FALSE], !.eseq = FALSE,
                           !.trim0 = o.trim0 \/ first,
                           !.trim0reset = IF first THEN FALSE ELSE o.trim0reset]
         /\ m' = [m EXCEPT !.chunks = Lens(tab)]
         /\ UNCHANGED <<tid>>

Next == /\ l <= Len(Trace)
        /\ l' = l + 1
        /\ Step(Trace[l])

Spec == Init /\ [][Next]_vars

\* printed once, from the state that has consumed the whole trace
Report == (l = Len(Trace) + 1) => PrintT(<<"OBS-RESULT", bad, drift>>)
=============================================================================
