\* bare cmSketch (Increment, Reset, Clear)
SPECIFICATION Spec
CONSTANTS
  Keys <- MCKeys
  Depth = 4
  W = 4
  Idx <- IdxXor
  DoorAlias <- AliasOne
  ResetAt = 4
  InitVals = {0, 13}
  PushSeqs <- MCPush
  Mode = "sketch"
  MaxOps = 7
INVARIANTS TypeOK EstBounds
PROPERTIES Monotone Saturate ResetHalves AutoResetHalves ClearZeroes
