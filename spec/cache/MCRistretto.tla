---------------------------- MODULE MCRistretto ----------------------------
(* Model-checking harness for Ristretto.tla: constant functions for the configurations and the
   VIEWs that hide history variables a configuration's invariants do not read.                  *)
EXTENDS Ristretto

IdHash == [k \in Keys |-> k]                 \* no collisions: hash = key
NoConf == [k \in Keys |-> 0]                 \* integer keys: conflict hash 0
\* three keys: 1 and 2 share primary hash 1 with distinct non-zero conflicts; 3 is an integer-like key
CollHash == [k \in Keys |-> IF k = 3 THEN 2 ELSE 1]
CollConf == [k \in Keys |-> IF k = 3 THEN 0 ELSE k]
\* string-like keys: distinct hashes, non-zero conflicts
StrConf == [k \in Keys |-> k + 10]

FullView == vars
\* implementation state only (plus the two counters that bound and name the behaviours): used by the deeper
\* configurations, which check only the invariants that do not read history variables
NoKeyCost == [k \in Keys |-> 0]
LastKeyCosts2 == [k \in Keys |-> IF \A j \in Keys : j <= k THEN 2 ELSE 1]   \* the largest key costs 2, all others 1
ImplOnlyView == <<implVars, nextVal, ops>>

(* Coverage goals: corner states the quick tier must always exercise on the real cache.  Each goal is
   handed to TLC as the invariant ~Goal; the counterexample TLC prints is a behaviour that reaches the
   corner, and it is replayed like any other lead (checks/cache_family.py, GOALS).                    *)
G_RejectWithVictims == ~(apc = "new_rej" /\ areg.victims # <<>>)
G_TwoVictims        == ~(apc = "new_set" /\ Len(areg.victims) >= 2)
G_DuplicateVictim   == ~(\E i, j \in DOMAIN areg.victims : i # j /\ areg.victims[i] = areg.victims[j])
G_DroppedUpdate     == ~(\E c \in Clients : pc[c] = "set_send" /\ creg[c].t = "upd" /\ ~Room)
G_BlockedDel        == ~(\E c \in Clients : pc[c] = "blocked" /\ creg[c].t = "del")
G_UpdateOfEvicted   == ~(apc = "idle" /\ buf # <<>> /\ Head(buf).t = "upd" /\ pol[Head(buf).h] = NoCost)
G_SweepWithBuffered == ~(apc = "sweep_check" /\ \E i \in DOMAIN buf : buf[i].t = "new" /\ buf[i].exp # 0)
G_LateApply         == ~(apc = "new_set" /\ areg.item.exp # 0 /\ areg.item.exp < now)
G_ClearWithBacklog  == ~(\E c \in Clients : pc[c] = "clr_drain" /\ Len(buf) >= 2 /\ \E d \in Clients : pc[d] = "wait_block")
G_ClearWhileBusy    == ~(\E c \in Clients : pc[c] = "clr_stop" /\ apc \in {"new_set", "victims", "del_store"})
G_ExpiredUnswept    == ~(\E h \in Hashes : store[h] # NULL /\ store[h].exp # 0 /\ store[h].exp < now /\
                          \E c \in Clients : pc[c] \in {"clr_stop", "set_send"})
G_ClearWithPending  == ~(\E c \in Clients : pc[c] = "clr_stop" /\ buf # <<>> /\ \E i \in DOMAIN buf : buf[i].t = "new")
G_SameBucketRewrite == ~(lastUpd.old # 0 /\ lastUpd.new # 0 /\ lastUpd.old # lastUpd.new /\ Bucket(lastUpd.old) = Bucket(lastUpd.new)
                          /\ \E c \in Clients : pc[c] = "set_send")
G_TTLDropped        == ~(lastUpd.old # 0 /\ lastUpd.new = 0 /\ \E c \in Clients : pc[c] = "set_send")
G_SweepSkip         == ~(apc = "sweep_check" /\ \E x \in sweepQ : store[x[2]] # NULL /\ (store[x[2]].exp > sweepNow \/ store[x[2]].exp = 0))
G_WaitBlockedInSend == ~(\E c \in Clients : pc[c] = "blocked" /\ creg[c].t = "wait")
G_TwoClears         == ~(\E c, d \in Clients : c # d /\ pc[c] = "clr_stop" /\ pc[d] \in {"clr_stop", "clr_drain", "clr_policy", "clr_store", "clr_fin"})
G_DelDuringVictims  == ~(apc = "victims" /\ \E c \in Clients : pc[c] = "del_send" /\ creg[c].h = Head(areg.victims))
G_SetDuringSweepDel == ~(apc \in {"sweep_poldel", "sweep_storedel"} /\ \E c \in Clients : pc[c] = "set_send" /\ creg[c].h = areg.item.h)
G_SetDuringClear    == ~(\E c \in Clients : pc[c] \in {"clr_store", "clr_fin"} /\ (\A d \in Clients \ {c} : pc[d] = "idle")
                          /\ ops <= 3 /\ \E i \in DOMAIN buf : buf[i].t = "new")
G_ExactFitAfterShrink == ~(lowered /\ apc = "new_set" /\ used = maxCost /\ areg.victims = <<>>)
G_ReAddAfterZeroSweep == ~(areg.item.h \in swept0 /\ areg.item.cost > 0 /\
                            ((apc = "new_set" /\ areg.victims # <<>>) \/ apc = "new_rej"))
G_ClearAfterGetsOnly == ~(\E c \in Clients : pc[c] = "clr_stop" /\ (\A h \in Hashes : store[h] = NULL /\ pol[h] = NoCost)
                           /\ buf = <<>> /\ \E h \in Hashes : door[h])
G_SixVictims        == ~(apc = "new_set" /\ Len(areg.victims) >= 6)
G_ZeroCostVictim    == ~(apc \in {"new_set", "new_rej"} /\ zeroVictim)
G_RefusedRewrite    == ~(refusedRw /\ \E c \in Clients : pc[c] = "set_send" /\ creg[c].t = "new" /\ creg[c].val \in RefuseVals /\
                          store[creg[c].h] # NULL /\ store[creg[c].h].exp # creg[c].exp)
G_TakeoverExpiredSlot == ~(apc = "new_set" /\ store[areg.item.h] # NULL /\ ~ConfOK(areg.item.conf, store[areg.item.h].conf)
                            /\ store[areg.item.h].exp # 0 /\ store[areg.item.h].exp < now)
G_CollidingDel      == ~(apc = "del_store" /\ store[areg.item.h] # NULL /\ ~ConfOK(areg.item.conf, store[areg.item.h].conf))
G_FillAfterRejVict  == ~(rejVict /\ apc = "new_set" /\ areg.victims = <<>> /\ used = maxCost)
G_RoomAfterSweepSkip == ~(apc \in {"new_set", "new_rej"} /\ (areg.victims # <<>> \/ apc = "new_rej") /\
                          \E h \in swSkip : h # areg.item.h /\ store[h] # NULL /\ pol[h] # NoCost)
G_RaiseCost         == ~(raised /\ used > maxCost)
=============================================================================
