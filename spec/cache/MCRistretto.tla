---------------------------- MODULE MCRistretto ----------------------------
(* Model-checking harness for Ristretto.tla: constant functions for the configurations and the
   VIEWs that hide history variables a configuration's invariants do not read.                  *)
EXTENDS Ristretto

IdHash == [k \in Keys |-> k]                 \* no collisions: hash = key
NoConf == [k \in Keys |-> 0]                 \* integer keys: conflict hash 0
\* three keys: 1 and 2 share primary hash 1 with distinct non-zero conflicts; 3 is an integer-like key
CollHash == [k \in Keys |-> IF k = 3 THEN 2 ELSE 1]
CollConf == [k \in Keys |-> IF k = 3 THEN 0 ELSE k]
\* string-like keys: distinct hashes, non-zero conflicts
StrConf == [k \in Keys |-> k + 10]

FullView == vars
=============================================================================
