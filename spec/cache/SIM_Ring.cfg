SPECIFICATION Spec
CONSTANTS
  Keys = {1, 2}
  Capa = 2
  ChCap = 3
  MaxGets = 14
  MaxStripes = 3
  Eager = TRUE
  ReuseKept = FALSE

