-------------------------------- MODULE Ring --------------------------------
(* Design specification of the Get-frequency pipeline of the cache (ring.go, policy.go Push /
   processItems, tinyLFU.Push): beyond the listed properties, it backs the GetsKept/GetsDropped clause
   of C17 and the "no data race" clause of C08 for the lossy read buffer.

     Get -> ringBuffer.Push(hash): take a stripe from the sync.Pool (any pooled stripe, or a new one),
            append the hash; a full stripe is handed to the policy with a NON-BLOCKING send on
            itemsCh (capacity 3): kept -> the stripe gets a fresh backing array, dropped -> the stripe
            reuses its array; the stripe goes back to the pool.  The pool may forget stripes (GC).
     policy goroutine: receive a batch, take the policy lock, increment every hash of the batch.

   Backing arrays are modelled explicitly (array id -> contents) because the batch sent to the
   policy goroutine is the stripe's slice itself, not a copy: the design is only correct because a kept
   stripe never writes into that array again.  Toggle ReuseKept models the seeded defect "always
   s.data = s.data[:0]" (FALSE = code as it is).                                                    *)
EXTENDS Naturals, Sequences, FiniteSets, TLC

CONSTANTS Keys,        \* hashes
          Capa,        \* BufferItems
          ChCap,       \* capacity of itemsCh (3 in the code)
          MaxGets,     \* bound on the number of Get calls
          MaxStripes,  \* bound on the number of stripes ever created
          ReuseKept,   \* modelled defect: a kept stripe keeps writing into the array it handed over
          Eager        \* TRUE: the policy goroutine has priority (it runs whenever it can) - the schedule the replay
                       \* harness realises, where every client step is followed by synctest.Wait()

VARIABLES
  arr,        \* array id -> sequence of hashes currently stored in that backing array
  nextArr,
  stripes,    \* stripe id -> [a |-> array id, n |-> len(data)]   (0 = stripe not created / forgotten)
  pooled,     \* set of stripe ids sitting in the pool
  ch,         \* itemsCh: sequence of [a |-> array id, n |-> length, snap |-> contents at send time]
  cur,        \* batch the policy goroutine holds (received, waiting for / holding the lock), or NoBatch
  plock,      \* policy lock held by somebody else (the applier in Add, or the harness)
  freq,       \* hash -> number of increments applied
  kept, dropped,   \* metric counters keepGets / dropGets
  gets,       \* hash -> number of Get calls
  torn        \* history: the policy goroutine read a batch whose contents differ from what was sent

vars == <<arr, nextArr, stripes, pooled, ch, cur, plock, freq, kept, dropped, gets, torn>>

NoBatch == [a |-> 0, n |-> 0, snap |-> <<>>]
NoStripe == [a |-> 0, n |-> 0]
StripeIds == 1..MaxStripes
TotalGets == LET RECURSIVE S(_)
                 S(T) == IF T = {} THEN 0 ELSE LET k == CHOOSE x \in T : TRUE IN gets[k] + S(T \ {k})
             IN S(Keys)

Init ==
  /\ arr = [i \in 1..(MaxStripes + MaxGets) |-> <<>>] /\ nextArr = 1
  /\ stripes = [s \in StripeIds |-> NoStripe] /\ pooled = {}
  /\ ch = <<>> /\ cur = NoBatch /\ plock = FALSE
  /\ freq = [k \in Keys |-> 0] /\ kept = 0 /\ dropped = 0
  /\ gets = [k \in Keys |-> 0] /\ torn = FALSE

\* ringStripe.Push on stripe s (taken from the pool or new), then back into the pool
PushOn(s, k, st, arrs, na) ==
  LET a == st.a
      data == Append(SubSeq(arrs[a], 1, st.n), k)          \* append writes at index n of the backing array
      arrs1 == [arrs EXCEPT ![a] = data \o SubSeq(arrs[a], st.n + 2, Len(arrs[a]))]
  IN
  IF st.n + 1 < Capa
    THEN /\ arr' = arrs1 /\ stripes' = [stripes EXCEPT ![s] = [a |-> a, n |-> st.n + 1]]
         /\ nextArr' = na /\ UNCHANGED <<ch, kept, dropped>>
    ELSE IF Len(ch) < ChCap
      THEN \* kept: the batch (the slice itself) goes to the channel; the stripe takes a fresh array
           /\ ch' = Append(ch, [a |-> a, n |-> st.n + 1, snap |-> data])
           /\ kept' = kept + st.n + 1 /\ UNCHANGED dropped
           /\ IF ReuseKept
                THEN arr' = arrs1 /\ nextArr' = na /\ stripes' = [stripes EXCEPT ![s] = [a |-> a, n |-> 0]]
                ELSE arr' = arrs1 /\ nextArr' = na + 1 /\ stripes' = [stripes EXCEPT ![s] = [a |-> na, n |-> 0]]
      ELSE \* dropped: the batch is forgotten, the array is reused
           /\ dropped' = dropped + st.n + 1 /\ UNCHANGED <<ch, kept>>
           /\ arr' = arrs1 /\ nextArr' = na /\ stripes' = [stripes EXCEPT ![s] = [a |-> a, n |-> 0]]

PolicyCanRun == (cur = NoBatch /\ ch # <<>>) \/ (cur # NoBatch /\ ~plock)
ClientMayRun == ~Eager \/ ~PolicyCanRun

GetPooled(s, k) ==      \* Get: pool.Get returns pooled stripe s
  /\ ClientMayRun
  /\ TotalGets < MaxGets /\ s \in pooled
  /\ gets' = [gets EXCEPT ![k] = @ + 1]
  /\ PushOn(s, k, stripes[s], arr, nextArr)
  /\ UNCHANGED <<pooled, cur, plock, freq, torn>>

GetNew(s, k) ==         \* Get: the pool is empty for this P (or was cleared): a new stripe is made
  /\ ClientMayRun
  /\ TotalGets < MaxGets /\ stripes[s] = NoStripe /\ s \notin pooled
  /\ \A t \in StripeIds : t < s => stripes[t] # NoStripe       \* symmetry: create stripes in order
  /\ gets' = [gets EXCEPT ![k] = @ + 1]
  /\ PushOn(s, k, [a |-> nextArr, n |-> 0], arr, nextArr + 1)
  /\ pooled' = pooled \cup {s}
  /\ UNCHANGED <<cur, plock, freq, torn>>

PoolForgets(s) ==       \* sync.Pool drops an unheld stripe (GC); its pending hashes are lost
  /\ ClientMayRun /\ s \in pooled /\ pooled' = pooled \ {s}
  /\ UNCHANGED <<arr, nextArr, stripes, ch, cur, plock, freq, kept, dropped, gets, torn>>

PolicyRecv ==           \* policy goroutine: items := <-p.itemsCh
  /\ cur = NoBatch /\ ch # <<>>
  /\ cur' = Head(ch) /\ ch' = Tail(ch)
  /\ UNCHANGED <<arr, nextArr, stripes, pooled, plock, freq, kept, dropped, gets, torn>>

PolicyApply ==          \* p.Lock(); p.admit.Push(items); p.Unlock()
  /\ cur # NoBatch /\ ~plock
  /\ LET seen == SubSeq(arr[cur.a], 1, cur.n) IN        \* what the goroutine actually reads NOW
     /\ torn' = (torn \/ seen # cur.snap)
     /\ freq' = [k \in Keys |-> freq[k] + Cardinality({i \in 1..cur.n : seen[i] = k})]
  /\ cur' = NoBatch
  /\ UNCHANGED <<arr, nextArr, stripes, pooled, ch, plock, kept, dropped, gets>>

LockToggle ==           \* somebody else takes / releases the policy lock
  /\ ClientMayRun
  /\ plock' = ~plock
  /\ UNCHANGED <<arr, nextArr, stripes, pooled, ch, cur, freq, kept, dropped, gets, torn>>

Next == \/ \E s \in StripeIds, k \in Keys : GetPooled(s, k) \/ GetNew(s, k)
        \/ \E s \in StripeIds : PoolForgets(s)
        \/ PolicyRecv \/ PolicyApply \/ LockToggle

Spec == Init /\ [][Next]_vars

(* ---- properties ---- *)
\* a batch handed to the policy goroutine is never written to again (C08: no race on the batch)
BatchesIntact == ~torn /\ (\A i \in DOMAIN ch : SubSeq(arr[ch[i].a], 1, ch[i].n) = ch[i].snap)
                       /\ (cur # NoBatch => SubSeq(arr[cur.a], 1, cur.n) = cur.snap)
\* C17: GetsKept + GetsDropped never exceeds the number of Gets
KeptDroppedBounded == kept + dropped <= TotalGets
\* recorded frequencies never over-count a key
NoOverCount == \A k \in Keys : freq[k] <= gets[k]
\* kept counts exactly the hashes sent to the policy
KeptIsSent == LET RECURSIVE L(_)
                  L(q) == IF q = <<>> THEN 0 ELSE Head(q).n + L(Tail(q))
                  applied == LET RECURSIVE S(_)
                                 S(T) == IF T = {} THEN 0 ELSE LET k == CHOOSE x \in T : TRUE IN freq[k] + S(T \ {k})
                             IN S(Keys)
              IN kept = applied + L(ch) + cur.n
=============================================================================
