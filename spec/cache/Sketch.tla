------------------------------- MODULE Sketch -------------------------------
(* Design specification of the access-frequency estimator (C18):
     sketch.go  cmRow (packed 4-bit counters), cmSketch (4 rows, estimate = minimum), next2Power
     policy.go  tinyLFU (doorkeeper + sketch, aging reset after resetAt increments)

   Three layers, all in this module:

   1. BYTE LAYER (ByteSpec).  A cmRow is a slice of bytes, each holding two counters.  The four
      operations are transcribed as the code has them:
          get(n)       = (r[n/2] >> ((n&1)*4)) & 0x0f
          increment(n) : i = n/2; s = (n&1)*4; v = (r[i]>>s) & 0x0f; if v < 15 { r[i] += 1 << s }
          reset        : r[i] = (r[i] >> 1) & 0x77     for every byte
          clear        : r[i] = 0
      ByteSpec starts from EVERY byte value 0..255 and applies {increment low, increment high, reset,
      clear}: 256 states, 1024 transitions, checked against the counter-level meaning (saturating
      +1 on one nibble, the other nibble untouched, both nibbles halved independently rounding
      down, both zero).

   2. SKETCH + TINYLFU LAYER (Spec).  Depth rows of W counters (W/2 bytes each, using the byte
      operations above), a per-row index function Idx[k][i] - a CONSTANT function from key to Depth
      counter indices (the code computes (hashed XOR seed[i]) AND mask; MC_Sketch.tla instantiates
      Idx both in that XOR form, which the Go harness can realise, and in a general form with partial
      collisions) -, Estimate = minimum over the rows.  The TinyLFU wrapper: the doorkeeper is the
      set `door` of keys whose first access was absorbed; Has(k) may also be true for a key that was
      never added (Bloom false positive): DoorAlias[k] is a set of key sets, k is reported present
      when one of them is contained in door.  incrs/ResetAt: the aging reset (clear the doorkeeper,
      halve every counter) happens inside the Increment that makes incrs reach ResetAt, and can be
      called at every position of a sequence (action Reset).

   3. SIZING.  next2Power transcribed (x--; x |= x>>1; ... x |= x>>32; x++), newCmSketch: width =
      next2Power(NumCounters), row = width/2 bytes, mask = width-1.                               *)
EXTENDS Naturals, Integers, FiniteSets, Sequences, TLC, Bitwise

CONSTANTS Keys,        \* key ids
          Depth,       \* rows (cmDepth = 4)
          W,           \* counters per row (a power of two >= 2)
          Idx,         \* [Keys -> [1..Depth -> 0..W-1]]
          DoorAlias,   \* [Keys -> SUBSET SUBSET Keys]   false positives of the doorkeeper
          ResetAt,     \* tinyLFU.resetAt (= NumCounters in the code)
          InitVals,    \* counter values the table may start from (0 = fresh; 13 reaches saturation)
          Mode,        \* "lfu": tinyLFU.Increment/Push/reset/clear;  "sketch": bare cmSketch
          PushSeqs,    \* the key sequences tinyLFU.Push is called with (a set of sequences over Keys)
          MaxOps       \* bound on behaviour length (model checking only)

Shr(x, s) == IF s >= 31 THEN 0 ELSE x \div (2 ^ s)   \* logical shift right (operands are below 2^31 here)
Min(a, b) == IF a < b THEN a ELSE b

(* ------------------------------------ byte layer ------------------------------------ *)
\* a row: function 0..(len-1) -> 0..255
\* x & 0x0f.  Written as x % 16 because TLC evaluates that an order of magnitude faster than the
\* Bitwise operator; the identity is checked for every byte value in ByteGetOK.  The mask of reset
\* (0x77), the point of the property, stays a real bitwise AND.
Nib(x) == x % 16
RowGet(r, n) == Nib(Shr(r[n \div 2], (n % 2) * 4))

RowInc(r, n) ==
  LET i == n \div 2
      s == (n % 2) * 4
      v == Nib(Shr(r[i], s))
  IN  IF v < 15 THEN [r EXCEPT ![i] = (@ + 2 ^ s) % 256] ELSE r      \* byte arithmetic: r[i] += 1<<s

RowReset(r) == [i \in DOMAIN r |-> Shr(r[i], 1) & 119]               \* 0x77
RowClear(r) == [i \in DOMAIN r |-> 0]

\* counter-level meaning of a byte
Lo(b) == b % 16
Hi(b) == b \div 16

VARIABLES rows,     \* [1..Depth -> [0..W/2-1 -> 0..255]]
          door,     \* keys whose first access was absorbed by the doorkeeper
          incrs,
          cnt,      \* history: recorded accesses per key since the last reset / clear
          v0,       \* history: counter value the table started from
          last,     \* [op, ks, reset]: last operation, whether it performed the aging reset
          ops

vars == <<rows, door, incrs, cnt, v0, last, ops>>

(* ---------- ByteSpec: one row of one byte, every byte value, every operation ---------- *)
ByteInit == /\ rows \in {[r \in 1..1 |-> [i \in 0..0 |-> b]] : b \in 0..255}
            /\ door = {} /\ incrs = 0 /\ cnt = [k \in Keys |-> 0] /\ v0 = 0 /\ ops = 0
            /\ last = [op |-> "none", ks |-> <<>>, reset |-> FALSE]
ByteOp(name, f(_)) == /\ last.op = "none"
                      /\ rows' = [rows EXCEPT ![1] = f(@)]
                      /\ last' = [op |-> name, ks |-> <<>>, reset |-> FALSE]
                      /\ UNCHANGED <<door, incrs, cnt, v0, ops>>
ByteIncLow  == ByteOp("incLow",  LAMBDA r : RowInc(r, 0))
ByteIncHigh == ByteOp("incHigh", LAMBDA r : RowInc(r, 1))
ByteReset   == ByteOp("reset",   LAMBDA r : RowReset(r))
ByteClear   == ByteOp("clear",   LAMBDA r : RowClear(r))
ByteNext == ByteIncLow \/ ByteIncHigh \/ ByteReset \/ ByteClear
ByteSpec == ByteInit /\ [][ByteNext]_vars

B  == rows[1][0]
B1 == rows'[1][0]
\* nibble independence, saturation, halving, clearing - for all 256 values x 4 operations
ByteIncLowOK  == [][ByteIncLow  => /\ Lo(B1) = Min(Lo(B) + 1, 15) /\ Hi(B1) = Hi(B)]_vars
ByteIncHighOK == [][ByteIncHigh => /\ Hi(B1) = Min(Hi(B) + 1, 15) /\ Lo(B1) = Lo(B)]_vars
ByteResetOK   == [][ByteReset   => /\ Lo(B1) = Lo(B) \div 2 /\ Hi(B1) = Hi(B) \div 2]_vars
ByteClearOK   == [][ByteClear   => B1 = 0]_vars
ByteGetOK     == /\ RowGet(rows[1], 0) = Lo(B) /\ RowGet(rows[1], 1) = Hi(B) /\ B \in 0..255
                 /\ Nib(B) = (B & 15) /\ Nib(Shr(B, 4)) = (Shr(B, 4) & 15)

(* ------------------------------ sketch + TinyLFU layer ------------------------------- *)
RowIds == 1..Depth
FreshRow(v) == [i \in 0..((W \div 2) - 1) |-> v + 16 * v]

SkInc(rs, k)  == [i \in RowIds |-> RowInc(rs[i], Idx[k][i])]
SkReset(rs)   == [i \in RowIds |-> RowReset(rs[i])]
SkClear(rs)   == [i \in RowIds |-> RowClear(rs[i])]
RECURSIVE MinOver(_, _, _)
MinOver(rs, k, i) == IF i = Depth THEN RowGet(rs[i], Idx[k][i])
                     ELSE Min(RowGet(rs[i], Idx[k][i]), MinOver(rs, k, i + 1))
SkEst(rs, k)  == Min(255, MinOver(rs, k, 1))

Has(d, k) == k \in d \/ \E S \in DoorAlias[k] : S \subseteq d
Est(rs, d, k) == SkEst(rs, k) + (IF Mode = "lfu" /\ Has(d, k) THEN 1 ELSE 0)
Estimate(k) == Est(rows, door, k)
Counter(rs, i, n) == RowGet(rs[i], n)

\* tinyLFU.Increment as a function of the state record [rows, door, incrs, cnt, reset]
IncF(st, k) ==
  LET added == ~Has(st.door, k)                                 \* AddIfNotHas
      d1 == IF added THEN st.door \cup {k} ELSE st.door
      r1 == IF added THEN st.rows ELSE SkInc(st.rows, k)
      n1 == st.incrs + 1
      c1 == [st.cnt EXCEPT ![k] = @ + 1]
  IN  IF n1 >= ResetAt
        THEN [rows |-> SkReset(r1), door |-> {}, incrs |-> 0, cnt |-> [j \in Keys |-> 0], reset |-> TRUE]
        ELSE [rows |-> r1, door |-> d1, incrs |-> n1, cnt |-> c1, reset |-> st.reset]
\* (LET-bound intermediate states: TLC re-evaluates an operator argument at every use, a LET
\* definition only once)
RECURSIVE PushF(_, _)
PushF(st, ks) == IF ks = <<>> THEN st
                 ELSE LET s1 == IncF(st, Head(ks)) IN PushF(s1, Tail(ks))
Cur == [rows |-> rows, door |-> door, incrs |-> incrs, cnt |-> cnt, reset |-> FALSE]

Init == /\ v0 \in InitVals
        /\ rows = [i \in RowIds |-> FreshRow(v0)]
        /\ door = {} /\ incrs = 0 /\ cnt = [k \in Keys |-> 0] /\ ops = 0
        /\ last = [op |-> "none", ks |-> <<>>, reset |-> FALSE]

Apply(st, name, ks) ==
  /\ rows' = st.rows /\ door' = st.door /\ incrs' = st.incrs /\ cnt' = st.cnt
  /\ last' = [op |-> name, ks |-> ks, reset |-> st.reset]
  /\ ops' = ops + 1 /\ UNCHANGED v0

ZeroCnt == [j \in Keys |-> 0]
Inc(k)  == /\ Mode = "lfu" /\ ops < MaxOps
           /\ LET cur == Cur  st == IncF(cur, k) IN Apply(st, "Inc", <<k>>)
Push(ks) == /\ Mode = "lfu" /\ ops < MaxOps
            /\ LET cur == Cur  st == PushF(cur, ks) IN Apply(st, "Push", ks)
Reset   == /\ ops < MaxOps        \* tinyLFU.reset / cmSketch.Reset called at any position
           /\ LET st == [rows |-> SkReset(rows), door |-> {}, incrs |-> 0, cnt |-> ZeroCnt, reset |-> TRUE]
              IN  Apply(st, "Reset", <<>>)
Clear   == /\ ops < MaxOps
           /\ LET st == [rows |-> SkClear(rows), door |-> {}, incrs |-> 0, cnt |-> ZeroCnt, reset |-> FALSE]
              IN  Apply(st, "Clear", <<>>)
\* bare cmSketch.Increment (no doorkeeper, no automatic reset)
SketchInc(k) == /\ Mode = "sketch" /\ ops < MaxOps
                /\ LET st == [rows |-> SkInc(rows, k), door |-> door, incrs |-> incrs,
                              cnt |-> [cnt EXCEPT ![k] = @ + 1], reset |-> FALSE]
                   IN  Apply(st, "SketchInc", <<k>>)

Next == \/ \E k \in Keys : Inc(k) \/ SketchInc(k)
        \/ \E ks \in PushSeqs : Push(ks)
        \/ Reset \/ Clear
Spec == Init /\ [][Next]_vars

(* ----------------------------------- properties (C18) ------------------------------------ *)
TypeOK == /\ \A i \in RowIds : \A j \in DOMAIN rows[i] : rows[i][j] \in 0..255
          /\ door \subseteq Keys /\ incrs \in 0..(ResetAt - 1)
\* between two resets: at least min(n, 15) after n recorded accesses, never more than 16
EstBounds == \A k \in Keys : LET e == Estimate(k) IN
                               /\ e >= Min(cnt[k], 15)
                               /\ e <= (IF Mode = "lfu" THEN 16 ELSE 15)
\* recording an access (that does not perform the aging reset) never lowers any key's estimate
Monotone == [][(last'.op \in {"Inc", "Push", "SketchInc"} /\ ~last'.reset) =>
                 \A k \in Keys : Est(rows', door', k) >= Estimate(k)]_vars
\* counters saturate instead of wrapping, and an increment touches only its own counters:
\* every counter either keeps its value or goes up by one, 15 stays 15
Saturate == [][(last'.op \in {"Inc", "SketchInc"} /\ ~last'.reset) =>
                 \A i \in RowIds : \A n \in 0..(W - 1) :
                    LET a == Counter(rows, i, n)  b == Counter(rows', i, n) IN
                    /\ b = a \/ (b = a + 1 /\ n = Idx[last'.ks[1]][i])
                    /\ (a = 15 => b = 15)]_vars
\* an aging reset halves every counter independently (rounding down) and forgets the marks
ResetHalves == [][Reset => /\ \A i \in RowIds : \A n \in 0..(W - 1) : Counter(rows', i, n) = Counter(rows, i, n) \div 2
                           /\ door' = {} /\ incrs' = 0
                           /\ \A k \in Keys : Est(rows', door', k) = SkEst(rows, k) \div 2]_vars
\* the automatic reset inside Increment is the same halving applied after the access was recorded
AutoResetHalves == [][(last'.op = "Inc" /\ last'.reset) =>
                        LET k == last'.ks[1]
                            mid == IF Has(door, k) THEN SkInc(rows, k) ELSE rows IN
                        /\ incrs + 1 >= ResetAt
                        /\ rows' = SkReset(mid) /\ door' = {} /\ incrs' = 0]_vars
\* a clear zeroes everything
ClearZeroes == [][Clear => /\ \A i \in RowIds : \A j \in DOMAIN rows'[i] : rows'[i][j] = 0
                           /\ door' = {} /\ incrs' = 0 /\ \A k \in Keys : Est(rows', door', k) = 0]_vars

(* -------------------------------------- sizing -------------------------------------------- *)
Next2Power(x) ==
  LET a == x - 1
      b == a | Shr(a, 1)
      c == b | Shr(b, 2)
      d == c | Shr(c, 4)
      e == d | Shr(d, 8)
      f == e | Shr(e, 16)
      g == f | Shr(f, 32)
  IN  g + 1
IsPow2(x) == \E j \in 0..30 : x = 2 ^ j
SizingCases == (2..65) \cup {127, 128, 129, 1000, 4095, 4096, 4097, 65535, 65536, 65537, 1000000, 1048575, 1048576, 1048577}
\* width = the least power of two >= NumCounters; the row holds width/2 bytes; mask = width-1
SizingOK == \A x \in SizingCases :
              LET w == Next2Power(x) IN IsPow2(w) /\ w >= x /\ (w \div 2 < x) /\ w % 2 = 0
ASSUME SizingOK
=============================================================================
