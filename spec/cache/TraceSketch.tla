----------------------------- MODULE TraceSketch -----------------------------
(* Trace specification for the frequency estimator (C18): consumes trace.ndjson recorded from the
   real cmRow / cmSketch / tinyLFU by harness/cache/sketch_test.go.txt.

     bad   - the recorded history violates C18 as stated, judged from the interface of the objects
             (Increment, Push, Estimate, reset/Reset, clear/Clear, cmRow.get, the constructor's sizing):
               * between two aging resets an estimate is >= min(n, 15) after n recorded accesses and
                 never exceeds 16;
               * recording an access never lowers any key's estimate (counters saturate, no wrap);
               * an aging reset halves (rounding down) and forgets the first-access marks;
               * a clear zeroes everything;
               * the table is as wide as the next power of two of NumCounters;
               * counter level (cmRow): increment is a saturating +1 on its own counter only,
                 reset halves every counter independently, clear zeroes.
     drift - the white-box state (full counter table, doorkeeper answers, incrs, estimates, row bytes)
             differs from the design model Sketch.tla: reported, never a violation.

   Events (one JSON object per line):
     {ev:"New", t, obj:"lfu"|"sketch"|"bigsketch"|"row"|"size", nc, w, resetAt, seedlow:[4], lows:[..], alias:[[k,a]..]}
          (bigsketch: a cmSketch too wide to log or model counter by counter - NumCounters >= 2^19, where the code
           may take other paths than for small tables; judged at interface level only, tab = [])
          lows[k] = low bits (hash AND mask) of key k; alias [k,a]: the doorkeeper reports k as soon as a is in
     {ev:"Preload", tab, est}                          white-box: table overwritten (right after New)
     {ev:"Inc", ks:[k], est, tab, door, incrs}         tinyLFU.Increment / cmSketch.Increment
     {ev:"Push", ks, est, tab, door, incrs}            tinyLFU.Push
     {ev:"Reset", est, tab, door, incrs}               tinyLFU.reset / cmSketch.Reset
     {ev:"Clear", est, tab, door, incrs}               tinyLFU.clear / cmSketch.Clear
          est = Estimate of every key of the universe after the call; tab = 4 rows of w counters;
          door = keys for which the doorkeeper answers Has; incrs = tinyLFU.incrs
     {ev:"RowOp", op:"inc"|"reset"|"clear", n, row, pre, after, get}
          row/after = bytes before/after, pre/get = cmRow.get of every counter before/after
     {ev:"Size", nc, width, rowbytes, depth, resetAt}   newCmSketch / newTinyLFU (nc)
*)
EXTENDS Naturals, Integers, FiniteSets, Sequences, TLC, Json, Bitwise

Trace == ndJsonDeserialize("trace.ndjson")

VARIABLES l, tid, obj, w, resetAt, seedlow, lows, alias,
          tab, door, incrs,          \* design model (white-box)
          cnt, incn, prev,           \* observer: accesses per key / increments since the last reset, last estimates
          bad, drift
vars == <<l, tid, obj, w, resetAt, seedlow, lows, alias, tab, door, incrs, cnt, incn, prev, bad, drift>>

ToSet(s) == {s[i] : i \in DOMAIN s}
Min(a, b) == IF a < b THEN a ELSE b
Flag(cond, why) == IF cond THEN {} ELSE {[at |-> l, trace |-> tid, why |-> why]}
K == DOMAIN lows                       \* key ids 1..number of keys

(* ------------------------------ design model, counter level ------------------------------ *)
IdxOf(k, i) == (lows[k] ^^ seedlow[i]) + 1              \* (hashed XOR seed[i]) AND mask, 1-based
TabInc(t, k) == [i \in 1..4 |-> [t[i] EXCEPT ![IdxOf(k, i)] = IF @ < 15 THEN @ + 1 ELSE @]]
TabHalve(t)  == [i \in 1..4 |-> [n \in 1..w |-> t[i][n] \div 2]]
TabZero      == [i \in 1..4 |-> [n \in 1..w |-> 0]]
HasM(d, k)   == k \in d \/ \E i \in DOMAIN alias : alias[i][1] = k /\ alias[i][2] \in d
SkEstM(t, k) == LET v(i) == t[i][IdxOf(k, i)] IN Min(Min(v(1), v(2)), Min(v(3), v(4)))
EstM(t, d, k) == SkEstM(t, k) + (IF obj = "lfu" /\ HasM(d, k) THEN 1 ELSE 0)

IncM(st, k) ==
  IF obj = "sketch" THEN [tab |-> TabInc(st.tab, k), door |-> st.door, incrs |-> st.incrs]
  ELSE LET added == ~HasM(st.door, k)
           d1 == IF added THEN st.door \cup {k} ELSE st.door
           t1 == IF added THEN st.tab ELSE TabInc(st.tab, k)
       IN  IF st.incrs + 1 >= resetAt THEN [tab |-> TabHalve(t1), door |-> {}, incrs |-> 0]
           ELSE [tab |-> t1, door |-> d1, incrs |-> st.incrs + 1]
RECURSIVE PushM(_, _)
PushM(st, ks) == IF ks = <<>> THEN st ELSE LET s1 == IncM(st, Head(ks)) IN PushM(s1, Tail(ks))

DriftOf(e, st) ==
  Flag(e.tab = st.tab, e.ev \o ": counter table differs from the design model")
  \cup Flag(ToSet(e.door) = {k \in K : obj = "lfu" /\ HasM(st.door, k)}, e.ev \o ": doorkeeper answers differ from the design model")
  \cup Flag(e.incrs = st.incrs, e.ev \o ": incrs differs from the design model")
  \cup Flag(\A k \in K : e.est[k] = EstM(st.tab, st.door, k), e.ev \o ": an estimate differs from the design model")

(* ---------------------------------- observer (C18) ---------------------------------------- *)
ZeroCnt == [k \in K |-> 0]
Big == obj = "bigsketch"
\* which accesses are still "since the last aging reset" after recording ks, and was there a reset
RECURSIVE Fold(_, _)
Fold(acc, ks) ==
  IF ks = <<>> THEN acc
  ELSE LET nxt == IF obj = "lfu" /\ acc.incn + 1 >= resetAt
                    THEN [cnt |-> ZeroCnt, incn |-> 0, reset |-> TRUE]
                    ELSE [cnt |-> [acc.cnt EXCEPT ![Head(ks)] = @ + 1], incn |-> acc.incn + 1, reset |-> acc.reset]
       IN  Fold(nxt, Tail(ks))

HalfLoose(p, e) == e <= (p + 1) \div 2 /\ e >= (IF p >= 1 THEN (p - 1) \div 2 ELSE 0)
Bounds(e, c) ==
  Flag(\A k \in K : e.est[k] <= 16, e.ev \o ": an estimate exceeds 16")
  \cup Flag(\A k \in K : e.est[k] >= Min(c[k], 15),
            e.ev \o ": an estimate is below min(n, 15) after n recorded accesses since the last aging reset")

(* next power of two, by definition: the least 2^j >= x *)
RECURSIVE Pow2From(_, _)
Pow2From(p, x) == IF p >= x THEN p ELSE Pow2From(2 * p, x)
NextPow2(x) == Pow2From(1, x)

(* counter-level meaning of a cmRow operation, from the counters read before it *)
RowExpect(e) ==
  CASE e.op = "inc"   -> [n \in DOMAIN e.pre |-> IF n = e.n + 1 THEN Min(e.pre[n] + 1, 15) ELSE e.pre[n]]
    [] e.op = "reset" -> [n \in DOMAIN e.pre |-> e.pre[n] \div 2]
    [] e.op = "clear" -> [n \in DOMAIN e.pre |-> 0]
\* byte-level design model (Sketch.tla: RowInc / RowReset / RowClear)
Shr(x, s) == x \div (2 ^ s)
RowModel(e) ==
  CASE e.op = "inc"   -> LET i == (e.n \div 2) + 1
                             s == (e.n % 2) * 4
                             v == Shr(e.row[i], s) & 15
                         IN  IF v < 15 THEN [e.row EXCEPT ![i] = (@ + 2 ^ s) % 256] ELSE e.row
    [] e.op = "reset" -> [i \in DOMAIN e.row |-> Shr(e.row[i], 1) & 119]
    [] e.op = "clear" -> [i \in DOMAIN e.row |-> 0]

Init == /\ l = 1 /\ tid = 0 /\ obj = "none" /\ w = 2 /\ resetAt = 1 /\ seedlow = <<0, 0, 0, 0>> /\ lows = <<>>
        /\ alias = <<>> /\ tab = <<>> /\ door = {} /\ incrs = 0 /\ cnt = <<>> /\ incn = 0 /\ prev = <<>>
        /\ bad = {} /\ drift = {}

Step(e) ==
  CASE e.ev = "New" ->
         /\ tid' = e.t /\ obj' = e.obj /\ w' = e.w /\ resetAt' = e.resetAt /\ seedlow' = e.seedlow
         /\ lows' = e.lows /\ alias' = e.alias
         /\ tab' = (IF e.obj = "bigsketch" THEN <<>> ELSE [i \in 1..4 |-> [n \in 1..e.w |-> 0]]) /\ door' = {} /\ incrs' = 0
         /\ cnt' = [k \in DOMAIN e.lows |-> 0] /\ incn' = 0 /\ prev' = [k \in DOMAIN e.lows |-> 0]
         /\ UNCHANGED <<bad, drift>>
    [] e.ev = "Preload" ->
         /\ tab' = e.tab /\ prev' = e.est
         /\ drift' = drift \cup Flag(\A k \in K : e.est[k] = EstM(e.tab, door, k), "Preload: an estimate differs from the design model")
         /\ UNCHANGED <<tid, obj, w, resetAt, seedlow, lows, alias, door, incrs, cnt, incn, bad>>
    [] e.ev \in {"Inc", "Push"} ->
         LET acc == Fold([cnt |-> cnt, incn |-> incn, reset |-> FALSE], e.ks)
             st  == IF Big THEN [tab |-> tab, door |-> door, incrs |-> incrs]
                    ELSE PushM([tab |-> tab, door |-> door, incrs |-> incrs], e.ks)
         IN
         /\ bad' = bad \cup Bounds(e, acc.cnt)
                       \cup Flag(acc.reset \/ \A k \in K : e.est[k] >= prev[k],
                                 e.ev \o ": recording an access lowered an estimate")
                       \cup Flag(~(acc.reset /\ Len(e.ks) = 1) \/ \A k \in K : HalfLoose(prev[k], e.est[k]),
                                 e.ev \o ": the aging reset due after NumCounters increments did not halve the estimates")
         /\ drift' = drift \cup (IF Big THEN {} ELSE DriftOf(e, st))
         /\ tab' = st.tab /\ door' = st.door /\ incrs' = st.incrs
         /\ cnt' = acc.cnt /\ incn' = acc.incn /\ prev' = e.est
         /\ UNCHANGED <<tid, obj, w, resetAt, seedlow, lows, alias>>
    [] e.ev = "Reset" ->
         LET st == [tab |-> IF Big THEN tab ELSE TabHalve(tab), door |-> {}, incrs |-> 0] IN
         /\ bad' = bad \cup Bounds(e, ZeroCnt)
                       \cup Flag(\A k \in K :
                                   IF obj \in {"sketch", "bigsketch"} THEN e.est[k] = prev[k] \div 2
                                   ELSE IF cnt[k] > 0 THEN e.est[k] = (prev[k] - 1) \div 2
                                   ELSE e.est[k] = prev[k] \div 2 \/ (prev[k] >= 1 /\ e.est[k] = (prev[k] - 1) \div 2),
                                 "Reset: an estimate is not the half (rounded down) of the counter value, first-access mark forgotten")
         /\ drift' = drift \cup (IF Big THEN {} ELSE DriftOf(e, st))
         /\ tab' = st.tab /\ door' = {} /\ incrs' = 0
         /\ cnt' = ZeroCnt /\ incn' = 0 /\ prev' = e.est
         /\ UNCHANGED <<tid, obj, w, resetAt, seedlow, lows, alias>>
    [] e.ev = "Clear" ->
         LET st == [tab |-> IF Big THEN tab ELSE TabZero, door |-> {}, incrs |-> 0] IN
         /\ bad' = bad \cup Flag(\A k \in K : e.est[k] = 0, "Clear: an estimate is not zero afterwards")
         /\ drift' = drift \cup (IF Big THEN {} ELSE DriftOf(e, st))
         /\ tab' = st.tab /\ door' = {} /\ incrs' = 0
         /\ cnt' = ZeroCnt /\ incn' = 0 /\ prev' = e.est
         /\ UNCHANGED <<tid, obj, w, resetAt, seedlow, lows, alias>>
    [] e.ev = "RowOp" ->
         /\ bad' = bad \cup Flag(e.get = RowExpect(e),
                                 "cmRow." \o e.op \o ": counters are not " \o
                                 (CASE e.op = "inc" -> "a saturating +1 on the addressed counter only"
                                    [] e.op = "reset" -> "halved independently, rounding down"
                                    [] e.op = "clear" -> "all zero"))
         /\ drift' = drift \cup Flag(e.after = RowModel(e), "cmRow." \o e.op \o ": bytes differ from the design model")
         /\ UNCHANGED <<tid, obj, w, resetAt, seedlow, lows, alias, tab, door, incrs, cnt, incn, prev>>
    [] e.ev = "Size" ->
         /\ bad' = bad \cup Flag(e.width = NextPow2(e.nc) /\ e.rowbytes * 2 = e.width /\ e.depth = 4,
                                 "Size: the counter table is not NextPow2(NumCounters) wide")
         /\ drift' = drift \cup Flag(e.resetAt = e.nc, "Size: resetAt differs from NumCounters")
         /\ UNCHANGED <<tid, obj, w, resetAt, seedlow, lows, alias, tab, door, incrs, cnt, incn, prev>>

Next == /\ l <= Len(Trace)
        /\ l' = l + 1
        /\ Step(Trace[l])

Spec == Init /\ [][Next]_vars

Report == (l = Len(Trace) + 1) => PrintT(<<"OBS-RESULT", bad, drift>>)
=============================================================================
