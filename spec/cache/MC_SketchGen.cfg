\* TinyLFU over a general index function (partial collisions); not realisable by the code, design only
SPECIFICATION Spec
CONSTANTS
  Keys <- MCKeys
  Depth = 4
  W = 4
  Idx <- IdxGen
  DoorAlias <- AliasOne
  ResetAt = 4
  InitVals = {0, 13}
  PushSeqs <- MCPush
  Mode = "lfu"
  MaxOps = 5
INVARIANTS TypeOK EstBounds
PROPERTIES Monotone Saturate ResetHalves AutoResetHalves ClearZeroes
