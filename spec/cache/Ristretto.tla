----------------------------- MODULE Ristretto -----------------------------
(* GENERATED from Ristretto.tla.in by bin/expand_frames - edit the template, not this file

   Design specification of the ristretto cache (cache.go, store.go, policy.go, ttl.go).

   Implementation-shaped: one action per critical section / channel operation of the Go code, the
   same grain as the `verif` gate hooks (DESIGN.md section 5.1), so that every behaviour of this
   specification can be forced on the real cache by the gate scheduler of the harness and every
   state can be compared with the real cache's state.

     clients            SetBegin/SetSend, DelBegin/DelSend, WaitCall, Get, GetTTL1/GetTTL2, Iter,
                        SetMaxCost, ClearStop/ClearDrain/ClearPolicy/ClearStore/ClearRestart,
                        CloseBegin.../CloseFinish
     applier goroutine  AppDequeue (receive + cost + policy section), AppStoreSet | AppReject,
                        AppVictim, AppDelStore, SweepGrab, SweepCheck, SweepPolDel, SweepStoreDel
     environment        Tick (clock advance, ticker fires into a channel of capacity 1)

   Toggles FixZero / FixAtomic / FixLate model candidate repairs of defects F8 / F4 / F5
   (FALSE = the code as it is).                                                                   *)
EXTENDS Integers, Sequences, FiniteSets, TLC

CONSTANTS
  Keys,            \* model keys
  Hashes,          \* primary hashes
  HashOf,          \* [Keys -> Hashes]
  ConfOf,          \* [Keys -> Nat], conflict hash, 0 = none
  Clients,
  MaxOps,          \* total number of client calls in a behaviour
  Ops,             \* subset of {"set","del","get","wait","clear","close","maxcost","gettl","iter"}
  BufCap,          \* capacity of setBuf
  InitMaxCost,
  MaxCosts,        \* values UpdateMaxCost may set
  Costs,           \* costs a Set may carry (0 = "use Config.Cost")
  KeyCost,         \* [Keys -> Nat]: the cost every Set of that key carries; 0 = any of Costs (workloads in which the
                   \* cost is a function of the key: no overwrite ever changes a key's cost)
  CostFn,          \* value of Config.Cost(v) (0 = not configured)
  ItemSize,        \* internal per-item cost added by the applier (0 = IgnoreInternalCost)
  TTLs,            \* ttl values in ticks; 0 = no expiry
  D,               \* bucket duration in ticks
  MaxTime,
  MaxGets,         \* bound on the number of Get calls per key that raise its frequency
  RefuseVals,      \* values that ShouldUpdate refuses (as the incoming value)
  FixZero, FixAtomic, FixLate

NoCost == -1
NULL == [val |-> 0, exp |-> 0, conf |-> 0]
NoItem == [t |-> "none", k |-> 0, h |-> 0, conf |-> 0, val |-> 0, cost |-> 0, exp |-> 0, c |-> 0]
MaxVal == MaxOps
Vals == 1..MaxVal

VARIABLES
  store,        \* [Hashes -> [val, exp, conf]]           shard maps
  em,           \* set of <<bucket, hash, conf>>          expiration map
  lastCleaned,
  pol,          \* [Hashes -> cost | NoCost]              sampledLFU.keyCosts
  used,         \* sampledLFU.used
  maxCost,
  door, cnt,    \* TinyLFU: doorkeeper bit and counter per hash (no sketch collisions)
  buf,          \* setBuf
  sendq,        \* clients blocked in a channel send, FIFO
  apc, areg,    \* applier program counter / registers
  sweepQ, sweepNow,
  pc, creg,     \* client program counters / registers
  now, tickPending,
  running,      \* applier goroutine running (FALSE between Clear's stop and restart)
  stopq,        \* clients blocked in `c.stop <- struct{}{}` (FIFO, as Go's channel send queue)
  closed,
  met,          \* Metrics counters
  \* ---- history (not part of the implementation state) ----
  nextVal, ops,
  exitCnt, evictCnt, rejectCnt,   \* per value callback counts
  accepted, refused,              \* values whose Set returned true / false
  valKey,                         \* value -> key it was written under
  delOblig, waitCover, mustMiss,  \* C05
  clearOwed,                      \* C04/C15: values owed an exit by the running Clear
  gets,                           \* number of Get calls since creation / last Clear
  dropped,                        \* number of new-key Sets refused because the buffer was full
  zeroVictim,                     \* the latest admission evicted a key whose accounted cost was 0 (coverage goals)
  rejVict,                        \* some admission was turned away after it had evicted something (coverage goals)
  refusedRw,                      \* a re-write with another expiration was vetoed by ShouldUpdate while the entry was resident (coverage goals)
  swSkip,                         \* hashes whose live entry the expiry sweep examined and left alone (coverage goals)
  lowered,                        \* some overwrite lowered an accounted cost (coverage goals)
  swept0,                         \* hashes removed by the sweep while their accounted cost was 0 (coverage goals)
  lastUpd,                        \* expirations replaced by the latest in-place overwrite: [old, new] (coverage goals)
  clrOverlap,                     \* C15: some other call overlapped the running Clear
  raised,                         \* C03: some overwrite raised an accounted cost or MaxCost was lowered
  bad                             \* set of strings: action-level property violations latched

implVars == <<store, em, lastCleaned, pol, used, maxCost, door, cnt, buf, sendq, apc, areg, sweepQ,
              sweepNow, pc, creg, now, tickPending, running, stopq, closed, met>>
histVars == <<nextVal, ops, exitCnt, evictCnt, rejectCnt, accepted, refused, valKey, delOblig,
              waitCover, mustMiss, clearOwed, gets, dropped, zeroVictim, rejVict, swSkip, refusedRw, lowered, swept0, lastUpd, clrOverlap, raised, bad>>
vars == <<implVars, histVars>>

ZeroMet == [hit |-> 0, miss |-> 0, keyAdd |-> 0, keyUpdate |-> 0, keyEvict |-> 0, costAdd |-> 0,
            costEvict |-> 0, dropSets |-> 0, rejectSets |-> 0]

Bucket(t) == (t \div D) + 1               \* storageBucket
CleanupBucket(t) == Bucket(t) - 1

RECURSIVE SumF(_, _)
SumF(f, S) == IF S = {} THEN 0 ELSE LET x == CHOOSE y \in S : TRUE IN f[x] + SumF(f, S \ {x})
PolKeys(p) == {h \in Hashes : p[h] # NoCost}
SumPol(p) == SumF(p, PolKeys(p))
Min(S) == CHOOSE x \in S : \A y \in S : x <= y

Init ==
  /\ store = [h \in Hashes |-> NULL]
  /\ em = {} /\ lastCleaned = CleanupBucket(0)
  /\ pol = [h \in Hashes |-> NoCost] /\ used = 0 /\ maxCost = InitMaxCost
  /\ door = [h \in Hashes |-> FALSE] /\ cnt = [h \in Hashes |-> 0]
  /\ buf = <<>> /\ sendq = <<>>
  /\ apc = "idle" /\ areg = [item |-> NoItem, victims |-> <<>>]
  /\ sweepQ = {} /\ sweepNow = 0
  /\ pc = [c \in Clients |-> "idle"] /\ creg = [c \in Clients |-> NoItem]
  /\ now = 0 /\ tickPending = FALSE
  /\ running = TRUE /\ stopq = <<>> /\ closed = FALSE
  /\ met = ZeroMet
  /\ nextVal = 1 /\ ops = 0
  /\ exitCnt = [v \in Vals |-> 0] /\ evictCnt = [v \in Vals |-> 0] /\ rejectCnt = [v \in Vals |-> 0]
  /\ accepted = {} /\ refused = {} /\ valKey = [v \in Vals |-> 0]
  /\ delOblig = {} /\ waitCover = [c \in Clients |-> {}] /\ mustMiss = {}
  /\ clearOwed = [c \in Clients |-> {}] /\ gets = 0 /\ dropped = 0 /\ zeroVictim = FALSE /\ rejVict = FALSE /\ swSkip = {} /\ refusedRw = FALSE /\ lowered = FALSE /\ swept0 = {} /\ lastUpd = [old |-> 0, new |-> 0] /\ clrOverlap = FALSE /\ raised = FALSE /\ bad = {}

(* ------------------------------------------------------------------------------------------ *)
(* helpers                                                                                      *)
Exit1(cntf, v) == IF v = 0 THEN cntf ELSE [cntf EXCEPT ![v] = @ + 1]
ConfOK(q, have) == q = 0 \/ q = have            \* conflict check used by get/Del/Update/Set
Expired(e, t) == e.exp # 0 /\ t > e.exp         \* !exp.IsZero() && now.After(exp)
Flag(cond, why) == IF cond THEN {why} ELSE {}

\* expiration map: add / update / del as the code does them.  (expirationMap.update also deletes
\* from storageBucket(zero time) when the old expiration is zero: that bucket never exists.)
EmDel(e, h, exp) == IF exp = 0 THEN e ELSE {p \in e : ~(p[1] = Bucket(exp) /\ p[2] = h)}
\* FixLate (repair of F5): an expiration whose bucket is already behind the sweep frontier is filed in
\* the next bucket to be cleaned; del/update still look in storageBucket(exp), so such an entry can
\* stay behind as a stale index entry until that bucket is swept (the sweep re-checks the store).
EffBucket(exp) == IF FixLate /\ Bucket(exp) <= lastCleaned THEN lastCleaned + 1 ELSE Bucket(exp)
EmAdd(e, h, conf, exp) ==
  IF exp = 0 THEN e
  ELSE {p \in e : ~(p[1] = EffBucket(exp) /\ p[2] = h)} \cup {<<EffBucket(exp), h, conf>>}

Est(h) == cnt[h] + (IF door[h] THEN 1 ELSE 0)  \* tinyLFU.Estimate

Room == Len(buf) < BufCap
\* Close is never concurrent with another call (outside the properties' quantifiers)
Closing == \E d \in Clients : pc[d] # "idle" /\ creg[d].t = "close"
CanCall == ops < MaxOps /\ ~closed /\ ~Closing
InClear == \E d \in Clients : pc[d] \in {"clr_stop", "clr_drain", "clr_policy", "clr_store", "clr_fin", "cls_stop"}
Lookup(k) == LET e == store[HashOf[k]] IN
             IF e # NULL /\ ConfOK(ConfOf[k], e.conf) /\ ~Expired(e, now) THEN e.val ELSE 0

(* ------------------------------------------------------------------------------------------ *)
(* Set / SetWithTTL                                                                             *)
SetBegin(c, k, cost, ttl) ==      \* clock read, store.Update critical section, onExit(prev)
  /\ pc[c] = "idle" /\ CanCall /\ "set" \in Ops
  /\ (IF KeyCost[k] = 0 THEN cost \in Costs ELSE cost = KeyCost[k])
  /\ LET v == nextVal
         h == HashOf[k]
         q == ConfOf[k]
         exp == IF ttl = 0 THEN 0 ELSE now + ttl
         e == store[h]
         present == e # NULL /\ ConfOK(q, e.conf)
         updated == present /\ v \notin RefuseVals
     IN /\ nextVal' = nextVal + 1 /\ ops' = ops + 1
        /\ refusedRw' = (refusedRw \/ (present /\ ~updated /\ e.exp # exp))
        /\ valKey' = [valKey EXCEPT ![v] = k]
        /\ IF updated
             THEN /\ store' = [store EXCEPT ![h] = [val |-> v, exp |-> exp, conf |-> q]]
                  /\ em' = EmAdd(EmDel(em, h, e.exp), h, q, exp)
                  /\ exitCnt' = Exit1(exitCnt, e.val)
                  /\ lastUpd' = [old |-> e.exp, new |-> exp]
             ELSE UNCHANGED <<store, em, exitCnt, lastUpd>>
        /\ creg' = [creg EXCEPT ![c] = [t |-> IF updated THEN "upd" ELSE "new", k |-> k, h |-> h,
                                         conf |-> q, val |-> v, cost |-> cost, exp |-> exp, c |-> c]]
        /\ pc' = [pc EXCEPT ![c] = "set_send"]
        /\ delOblig' = delOblig \ {k} /\ mustMiss' = mustMiss \ {k}
        /\ waitCover' = [d \in Clients |-> waitCover[d] \ {k}]
  /\ clrOverlap' = (clrOverlap \/ InClear)
  /\ UNCHANGED <<lastCleaned, pol, used, maxCost, door, cnt, buf, sendq, apc, areg, sweepQ, sweepNow, now, 
                 tickPending, running, stopq, closed, met, evictCnt, rejectCnt, accepted, refused, 
                 clearOwed, gets, dropped, zeroVictim, rejVict, swSkip, lowered, swept0, raised, bad>>

SetSend(c) ==                     \* select { case c.setBuf <- i: ... default: ... }
  /\ pc[c] = "set_send"
  /\ LET it == creg[c] IN
     IF Room /\ sendq = <<>>
       THEN /\ buf' = Append(buf, it) /\ accepted' = accepted \cup {it.val}
            /\ UNCHANGED <<refused, met, dropped>>
       ELSE /\ UNCHANGED buf
            /\ IF it.t = "upd"
                 THEN accepted' = accepted \cup {it.val} /\ UNCHANGED <<refused, met, dropped>>
                 ELSE /\ refused' = refused \cup {it.val} /\ UNCHANGED accepted
                      /\ met' = [met EXCEPT !.dropSets = @ + 1] /\ dropped' = dropped + 1
  /\ pc' = [pc EXCEPT ![c] = "idle"]
  /\ UNCHANGED <<store, em, lastCleaned, pol, used, maxCost, door, cnt, sendq, apc, areg, sweepQ, 
                 sweepNow, creg, now, tickPending, running, stopq, closed, nextVal, ops, exitCnt, 
                 evictCnt, rejectCnt, valKey, delOblig, waitCover, mustMiss, clearOwed, gets, zeroVictim, 
                 rejVict, refusedRw, swSkip, lowered, swept0, lastUpd, clrOverlap, raised, bad>>

(* ------------------------------------------------------------------------------------------ *)
(* Del                                                                                          *)
DelBegin(c, k) ==                 \* store.Del critical section, onExit(prev)
  /\ pc[c] = "idle" /\ CanCall /\ "del" \in Ops
  /\ LET h == HashOf[k]  q == ConfOf[k]  e == store[h]
         hit == e # NULL /\ ConfOK(q, e.conf) IN
     /\ ops' = ops + 1
     /\ IF hit THEN /\ store' = [store EXCEPT ![h] = NULL]
                    /\ em' = EmDel(em, h, e.exp)
                    /\ exitCnt' = Exit1(exitCnt, e.val)
               ELSE UNCHANGED <<store, em, exitCnt>>
     /\ creg' = [creg EXCEPT ![c] = [t |-> "del", k |-> k, h |-> h, conf |-> q, val |-> 0, cost |-> 0,
                                      exp |-> 0, c |-> c]]
  /\ pc' = [pc EXCEPT ![c] = "del_send"]
  /\ clrOverlap' = (clrOverlap \/ InClear)
  /\ UNCHANGED <<lastCleaned, pol, used, maxCost, door, cnt, buf, sendq, apc, areg, sweepQ, sweepNow, now, 
                 tickPending, running, stopq, closed, met, nextVal, evictCnt, rejectCnt, accepted, 
                 refused, valKey, delOblig, waitCover, mustMiss, clearOwed, gets, dropped, zeroVictim, 
                 rejVict, refusedRw, swSkip, lowered, swept0, lastUpd, raised, bad>>

\* history bookkeeping at the return of Del(k) by client c (a Set of k in flight is concurrent with
\* the Del and therefore not "earlier")
DelReturned(c, k) == IF \E d \in Clients : d # c /\ pc[d] = "set_send" /\ creg[d].k = k
                       THEN delOblig ELSE delOblig \cup {k}

DelSend(c) ==                     \* c.setBuf <- tombstone  (blocking send)
  /\ pc[c] = "del_send"
  /\ IF Room /\ sendq = <<>>
       THEN /\ buf' = Append(buf, creg[c])
            /\ pc' = [pc EXCEPT ![c] = "idle"]
            /\ delOblig' = DelReturned(c, creg[c].k)
            /\ UNCHANGED sendq
       ELSE /\ sendq' = Append(sendq, c)
            /\ pc' = [pc EXCEPT ![c] = "blocked"]
            /\ UNCHANGED <<buf, delOblig>>
  /\ UNCHANGED <<store, em, lastCleaned, pol, used, maxCost, door, cnt, apc, areg, sweepQ, sweepNow, creg, 
                 now, tickPending, running, stopq, closed, met, nextVal, ops, exitCnt, evictCnt, 
                 rejectCnt, accepted, refused, valKey, waitCover, mustMiss, clearOwed, gets, dropped, 
                 zeroVictim, rejVict, refusedRw, swSkip, lowered, swept0, lastUpd, clrOverlap, raised, 
                 bad>>

(* ------------------------------------------------------------------------------------------ *)
(* Wait                                                                                         *)
WaitCall(c) ==                    \* c.setBuf <- marker (blocking), then <-wait
  /\ pc[c] = "idle" /\ CanCall /\ "wait" \in Ops
  /\ ops' = ops + 1
  /\ LET it == [t |-> "wait", k |-> 0, h |-> 0, conf |-> 0, val |-> 0, cost |-> 0, exp |-> 0, c |-> c] IN
     /\ creg' = [creg EXCEPT ![c] = it]
     /\ IF Room /\ sendq = <<>>
          THEN buf' = Append(buf, it) /\ pc' = [pc EXCEPT ![c] = "wait_block"] /\ UNCHANGED sendq
          ELSE sendq' = Append(sendq, c) /\ pc' = [pc EXCEPT ![c] = "blocked"] /\ UNCHANGED buf
  /\ waitCover' = [waitCover EXCEPT ![c] = delOblig]
  /\ clrOverlap' = (clrOverlap \/ InClear)
  /\ UNCHANGED <<store, em, lastCleaned, pol, used, maxCost, door, cnt, apc, areg, sweepQ, sweepNow, now, 
                 tickPending, running, stopq, closed, met, nextVal, exitCnt, evictCnt, rejectCnt, 
                 accepted, refused, valKey, delOblig, mustMiss, clearOwed, gets, dropped, zeroVictim, 
                 rejVict, refusedRw, swSkip, lowered, swept0, lastUpd, raised, bad>>

(* A receive from setBuf (by the applier or by Clear's drain loop) removes the head and, as Go's
   channel does, moves the item of the first blocked sender into the buffer in the same step.
   The unblocked sender continues: a Del returns, a Wait goes on to block on its marker.          *)
BufAfterRecv == IF sendq = <<>> THEN Tail(buf) ELSE Append(Tail(buf), creg[Head(sendq)])
SendqAfterRecv == IF sendq = <<>> THEN sendq ELSE Tail(sendq)
PcAfterRecv(p) == IF sendq = <<>> THEN p
                  ELSE LET s == Head(sendq) IN
                       [p EXCEPT ![s] = IF creg[s].t = "wait" THEN "wait_block" ELSE "idle"]
OblAfterRecv == IF sendq # <<>> /\ creg[Head(sendq)].t = "del"
                  THEN DelReturned(Head(sendq), creg[Head(sendq)].k) ELSE delOblig

(* ------------------------------------------------------------------------------------------ *)
(* Get, GetTTL, IterValues, UpdateMaxCost                                                       *)
Get(c, k) ==                      \* getBuf.Push (frequency), store.get, hit/miss metric
  /\ pc[c] = "idle" /\ CanCall /\ "get" \in Ops
  /\ Est(HashOf[k]) < MaxGets
  /\ ops' = ops + 1 /\ gets' = gets + 1
  /\ LET h == HashOf[k]  v == Lookup(k) IN
     /\ IF ~door[h] THEN door' = [door EXCEPT ![h] = TRUE] /\ UNCHANGED cnt
        ELSE cnt' = [cnt EXCEPT ![h] = IF @ < 15 THEN @ + 1 ELSE @] /\ UNCHANGED door
     /\ met' = IF v # 0 THEN [met EXCEPT !.hit = @ + 1] ELSE [met EXCEPT !.miss = @ + 1]
     /\ bad' = bad \cup Flag(v # 0 /\ exitCnt[v] > 0, "C02 Get served an exited value")
                   \cup Flag(v # 0 /\ k \in mustMiss, "C05 Get hit after Del+Wait")
                   \cup Flag(v # 0 /\ valKey[v] # k /\ ConfOf[k] # 0 /\ ConfOf[valKey[v]] # 0
                                   /\ ConfOf[k] # ConfOf[valKey[v]],
                             "C01 Get served a value written under another key")
  /\ clrOverlap' = (clrOverlap \/ InClear)
  /\ UNCHANGED <<store, em, lastCleaned, pol, used, maxCost, buf, sendq, apc, areg, sweepQ, sweepNow, pc, 
                 creg, now, tickPending, running, stopq, closed, nextVal, exitCnt, evictCnt, rejectCnt, 
                 accepted, refused, valKey, delOblig, waitCover, mustMiss, clearOwed, dropped, zeroVictim, 
                 rejVict, refusedRw, swSkip, lowered, swept0, lastUpd, raised>>

GetTTL(c, k) ==                   \* store.Get, store.Expiration, clock (no hook between the reads:
  /\ pc[c] = "idle" /\ ops < MaxOps /\ ~Closing /\ "gettl" \in Ops  \* one step at the grain of the gates)
  /\ ops' = ops + 1
  /\ UNCHANGED <<store, em, lastCleaned, pol, used, maxCost, door, cnt, buf, sendq, apc, areg, sweepQ, 
                 sweepNow, pc, creg, now, tickPending, running, stopq, closed, met, nextVal, exitCnt, 
                 evictCnt, rejectCnt, accepted, refused, valKey, delOblig, waitCover, mustMiss, clearOwed, 
                 gets, dropped, zeroVictim, rejVict, refusedRw, swSkip, lowered, swept0, lastUpd, 
                 clrOverlap, raised, bad>>

Iter(c) ==                        \* IterValues (read only; one step in the model)
  /\ pc[c] = "idle" /\ CanCall /\ "iter" \in Ops
  /\ ops' = ops + 1
  /\ UNCHANGED <<store, em, lastCleaned, pol, used, maxCost, door, cnt, buf, sendq, apc, areg, sweepQ, 
                 sweepNow, pc, creg, now, tickPending, running, stopq, closed, met, nextVal, exitCnt, 
                 evictCnt, rejectCnt, accepted, refused, valKey, delOblig, waitCover, mustMiss, clearOwed, 
                 gets, dropped, zeroVictim, rejVict, refusedRw, swSkip, lowered, swept0, lastUpd, 
                 clrOverlap, raised, bad>>

SetMaxCost(c, m) ==
  /\ pc[c] = "idle" /\ ops < MaxOps /\ ~Closing /\ "maxcost" \in Ops
  /\ ops' = ops + 1 /\ maxCost' = m
  /\ raised' = (raised \/ m < maxCost)
  /\ UNCHANGED <<store, em, lastCleaned, pol, used, door, cnt, buf, sendq, apc, areg, sweepQ, sweepNow, 
                 pc, creg, now, tickPending, running, stopq, closed, met, nextVal, exitCnt, evictCnt, 
                 rejectCnt, accepted, refused, valKey, delOblig, waitCover, mustMiss, clearOwed, gets, 
                 dropped, zeroVictim, rejVict, refusedRw, swSkip, lowered, swept0, lastUpd, clrOverlap, 
                 bad>>

(* ------------------------------------------------------------------------------------------ *)
(* applier: policy.Add                                                                          *)
\* fillSample: refill a sample (bag: hash -> multiplicity) from the accounted keys, in map order
\* (any order), without de-duplication, until it holds 5 entries.
BagSize(s) == SumF(s, Hashes)
Refills(s, p) ==
  LET need == 5 - BagSize(s)  ks == PolKeys(p) IN
  IF need <= 0 THEN {s}
  ELSE IF Cardinality(ks) <= need THEN {[h \in Hashes |-> s[h] + (IF h \in ks THEN 1 ELSE 0)]}
  ELSE {[h \in Hashes |-> s[h] + (IF h \in T THEN 1 ELSE 0)] : T \in {T \in SUBSET ks : Cardinality(T) = need}}

RECURSIVE AddRounds(_, _, _, _, _, _)
\* p, u: accounting so far; s: sample; vs: victims so far; m: metrics; it: incoming item (cost final)
AddRounds(p, u, s, vs, m, it) ==
  IF maxCost - (u + it.cost) >= 0
    THEN {[pol |-> [p EXCEPT ![it.h] = it.cost], used |-> u + it.cost, victims |-> vs, added |-> TRUE,
           met |-> [m EXCEPT !.costAdd = @ + it.cost]]}
    ELSE UNION {
      LET ks == {h \in Hashes : s2[h] > 0} IN
      IF ks = {} \/ Est(it.h) < Min({Est(h) : h \in ks})
        THEN {[pol |-> p, used |-> u, victims |-> vs, added |-> FALSE,
               met |-> [m EXCEPT !.rejectSets = @ + 1]]}
        ELSE UNION { AddRounds(IF p[v] # NoCost THEN [p EXCEPT ![v] = NoCost] ELSE p,
                               IF p[v] # NoCost THEN u - p[v] ELSE u,
                               [s2 EXCEPT ![v] = @ - 1],
                               Append(vs, v),
                               IF p[v] # NoCost THEN [m EXCEPT !.costEvict = @ + p[v], !.keyEvict = @ + 1] ELSE m,
                               it)
                     : v \in {h \in ks : Est(h) = Min({Est(x) : x \in ks})} }
      : s2 \in Refills(s, p) }

\* updateIfHas: metrics and accounting of a cost change of an accounted key
UpdCost(m, prev, cost) == [m EXCEPT !.keyUpdate = @ + 1, !.costAdd = @ + (cost - prev)]

PolicyAdd(it) ==   \* set of possible outcomes of policy.Add(it.h, it.cost)
  IF it.cost > maxCost
    THEN {[pol |-> pol, used |-> used, victims |-> <<>>, added |-> FALSE, met |-> met]}
  ELSE IF pol[it.h] # NoCost
    THEN {[pol |-> [pol EXCEPT ![it.h] = it.cost], used |-> used + it.cost - pol[it.h],
           victims |-> <<>>, added |-> FALSE, met |-> UpdCost(met, pol[it.h], it.cost)]}
  ELSE AddRounds(pol, used, [h \in Hashes |-> 0], <<>>, met, it)

EffCost(it) == (IF it.cost = 0 /\ CostFn # 0 /\ it.t # "del" THEN CostFn ELSE it.cost) + ItemSize

AppDequeue ==      \* receive from setBuf, evaluate cost, policy critical section
  /\ running /\ apc = "idle" /\ buf # <<>>
  /\ LET it0 == Head(buf)
         it == [it0 EXCEPT !.cost = EffCost(it0)] IN
     /\ buf' = BufAfterRecv /\ sendq' = SendqAfterRecv /\ delOblig' = OblAfterRecv
     /\ CASE it.t = "wait" ->
               /\ pc' = [PcAfterRecv(pc) EXCEPT ![it.c] = "idle"]       \* close(marker): Wait returns
               /\ mustMiss' = mustMiss \cup (waitCover[it.c] \cap delOblig)
               /\ UNCHANGED <<pol, used, met, apc, areg, bad, raised, lowered, zeroVictim, rejVict>>
          [] it.t = "new" ->
               \E r \in PolicyAdd(it) :
                 /\ pol' = r.pol /\ used' = r.used /\ met' = r.met
                 /\ areg' = [item |-> it, victims |-> r.victims]
                 /\ apc' = IF r.added THEN "new_set" ELSE "new_rej"
                 /\ pc' = PcAfterRecv(pc)
                 /\ raised' = (raised \/ (pol[it.h] # NoCost /\ it.cost > pol[it.h]))
                 /\ lowered' = (lowered \/ (pol[it.h] # NoCost /\ it.cost < pol[it.h]))
                 /\ zeroVictim' = (\E i \in DOMAIN r.victims : pol[r.victims[i]] = 0)
                 /\ rejVict' = (rejVict \/ (~r.added /\ r.victims # <<>>))
                 /\ bad' = bad \cup Flag(r.added /\ r.used > maxCost, "C03 admission pushed used above MaxCost")
                               \cup Flag(r.added /\ it.cost > maxCost, "C03 admitted an item larger than MaxCost")
                               \cup Flag(maxCost - (used + it.cost) >= 0 /\ pol[it.h] = NoCost /\ it.cost <= maxCost
                                           /\ (~r.added \/ r.victims # <<>>),
                                         "C09 fitting item not admitted cleanly")
                 /\ UNCHANGED mustMiss
          [] it.t = "upd" ->
               /\ IF pol[it.h] # NoCost
                    THEN /\ pol' = [pol EXCEPT ![it.h] = it.cost]
                         /\ used' = used + it.cost - pol[it.h]
                         /\ met' = UpdCost(met, pol[it.h], it.cost)
                         /\ raised' = (raised \/ it.cost > pol[it.h])
                         /\ lowered' = (lowered \/ it.cost < pol[it.h])
                    ELSE UNCHANGED <<pol, used, met, raised, lowered>>
               /\ pc' = PcAfterRecv(pc)
               /\ UNCHANGED <<apc, areg, mustMiss, bad, zeroVictim, rejVict>>
          [] it.t = "del" ->
               /\ IF pol[it.h] # NoCost
                    THEN /\ pol' = [pol EXCEPT ![it.h] = NoCost] /\ used' = used - pol[it.h]
                         /\ met' = [met EXCEPT !.costEvict = @ + pol[it.h], !.keyEvict = @ + 1]
                    ELSE UNCHANGED <<pol, used, met>>
               /\ areg' = [item |-> it, victims |-> <<>>]
               /\ apc' = "del_store"
               /\ pc' = PcAfterRecv(pc)
               /\ UNCHANGED <<mustMiss, bad, raised, lowered, zeroVictim, rejVict>>
  /\ UNCHANGED <<store, em, lastCleaned, maxCost, door, cnt, sweepQ, sweepNow, creg, now, tickPending, 
                 running, stopq, closed, nextVal, ops, exitCnt, evictCnt, rejectCnt, accepted, refused, 
                 valKey, waitCover, clearOwed, gets, dropped, refusedRw, swSkip, swept0, lastUpd, 
                 clrOverlap>>

AfterItem == IF areg.victims # <<>> THEN "victims" ELSE "idle"

AppStoreSet ==     \* lockedMap.Set under the shard lock, keyAdd metric
  /\ apc = "new_set"
  /\ LET it == areg.item  e == store[it.h] IN
     IF e # NULL /\ (~ConfOK(it.conf, e.conf) \/ it.val \in RefuseVals)
       THEN UNCHANGED <<store, em>>                 \* silently not stored (collision / ShouldUpdate)
       ELSE /\ store' = [store EXCEPT ![it.h] = [val |-> it.val, exp |-> it.exp, conf |-> it.conf]]
            /\ em' = EmAdd(IF e # NULL THEN EmDel(em, it.h, e.exp) ELSE em, it.h, it.conf, it.exp)
  /\ met' = [met EXCEPT !.keyAdd = @ + 1]
  /\ apc' = AfterItem
  /\ UNCHANGED <<lastCleaned, pol, used, maxCost, door, cnt, buf, sendq, areg, sweepQ, sweepNow, pc, creg, 
                 now, tickPending, running, stopq, closed, nextVal, ops, exitCnt, evictCnt, rejectCnt, 
                 accepted, refused, valKey, delOblig, waitCover, mustMiss, clearOwed, gets, dropped, 
                 zeroVictim, rejVict, refusedRw, swSkip, lowered, swept0, lastUpd, clrOverlap, raised, 
                 bad>>

AppReject ==       \* onReject(i) -> OnReject, OnExit
  /\ apc = "new_rej"
  /\ rejectCnt' = Exit1(rejectCnt, areg.item.val)
  /\ exitCnt' = Exit1(exitCnt, areg.item.val)
  /\ apc' = AfterItem
  /\ UNCHANGED <<store, em, lastCleaned, pol, used, maxCost, door, cnt, buf, sendq, areg, sweepQ, 
                 sweepNow, pc, creg, now, tickPending, running, stopq, closed, met, nextVal, ops, 
                 evictCnt, accepted, refused, valKey, delOblig, waitCover, mustMiss, clearOwed, gets, 
                 dropped, zeroVictim, rejVict, refusedRw, swSkip, lowered, swept0, lastUpd, clrOverlap, 
                 raised, bad>>

AppVictim ==       \* store.Del(victim, 0) + onEvict
  /\ apc = "victims"
  /\ LET h == Head(areg.victims)  e == store[h] IN
     /\ IF e # NULL THEN /\ store' = [store EXCEPT ![h] = NULL]
                         /\ em' = EmDel(em, h, e.exp)
                         /\ exitCnt' = Exit1(exitCnt, e.val) /\ evictCnt' = Exit1(evictCnt, e.val)
                    ELSE UNCHANGED <<store, em, exitCnt, evictCnt>>
     /\ areg' = [areg EXCEPT !.victims = Tail(@)]
     /\ apc' = IF Tail(areg.victims) = <<>> THEN "idle" ELSE "victims"
  /\ UNCHANGED <<lastCleaned, pol, used, maxCost, door, cnt, buf, sendq, sweepQ, sweepNow, pc, creg, now, 
                 tickPending, running, stopq, closed, met, nextVal, ops, rejectCnt, accepted, refused, 
                 valKey, delOblig, waitCover, mustMiss, clearOwed, gets, dropped, zeroVictim, rejVict, 
                 refusedRw, swSkip, lowered, swept0, lastUpd, clrOverlap, raised, bad>>

AppDelStore ==     \* store.Del(key, conflict) + onExit of a tombstone
  /\ apc = "del_store"
  /\ LET h == areg.item.h  e == store[h] IN
     IF e # NULL /\ ConfOK(areg.item.conf, e.conf)
       THEN /\ store' = [store EXCEPT ![h] = NULL]
            /\ em' = EmDel(em, h, e.exp)
            /\ exitCnt' = Exit1(exitCnt, e.val)
       ELSE UNCHANGED <<store, em, exitCnt>>
  /\ apc' = "idle"
  /\ UNCHANGED <<lastCleaned, pol, used, maxCost, door, cnt, buf, sendq, areg, sweepQ, sweepNow, pc, creg, 
                 now, tickPending, running, stopq, closed, met, nextVal, ops, evictCnt, rejectCnt, 
                 accepted, refused, valKey, delOblig, waitCover, mustMiss, clearOwed, gets, dropped, 
                 zeroVictim, rejVict, refusedRw, swSkip, lowered, swept0, lastUpd, clrOverlap, raised, 
                 bad>>

(* ------------------------------------------------------------------------------------------ *)
(* expiry sweep (ticker arm of the applier's select; expirationMap.cleanup)                      *)
SweepGrab ==       \* under the em lock: take whole buckets, advance the frontier
  /\ running /\ apc = "idle" /\ tickPending
  /\ tickPending' = FALSE
  /\ LET cur == CleanupBucket(now)
         grabbed == {p \in em : p[1] > lastCleaned /\ p[1] <= cur} IN
     /\ em' = em \ grabbed
     /\ lastCleaned' = cur
     /\ sweepQ' = grabbed      \* <<bucket, hash, conflict>>: buckets are visited in ascending order, the keys of a
                            \* bucket in map order (any order); a key filed in two grabbed buckets is visited twice
     /\ sweepNow' = now
     /\ apc' = IF grabbed = {} THEN "idle" ELSE "sweep_check"
  /\ UNCHANGED <<store, pol, used, maxCost, door, cnt, buf, sendq, areg, pc, creg, now, running, stopq, 
                 closed, met, nextVal, ops, exitCnt, evictCnt, rejectCnt, accepted, refused, valKey, 
                 delOblig, waitCover, mustMiss, clearOwed, gets, dropped, zeroVictim, rejVict, refusedRw, 
                 swSkip, lowered, swept0, lastUpd, clrOverlap, raised, bad>>

SweepCheck(x) ==   \* code as it was: store.Expiration under RLock, `expr.After(now)` => skip.
                   \* FixAtomic (repair of F4): store.DelExpired - check and delete under one shard lock
  /\ apc = "sweep_check" /\ x \in sweepQ /\ \A y \in sweepQ : x[1] <= y[1]
  /\ sweepQ' = sweepQ \ {x}
  /\ swSkip' = IF store[x[2]] # NULL /\ ConfOK(x[3], store[x[2]].conf) /\ (store[x[2]].exp = 0 \/ store[x[2]].exp > sweepNow)
                 THEN swSkip \cup {x[2]} ELSE swSkip
  /\ LET e == store[x[2]]
         next == IF sweepQ \ {x} = {} THEN "idle" ELSE "sweep_check" IN
     IF FixAtomic
       THEN IF e # NULL /\ ConfOK(x[3], e.conf) /\ e.exp # 0 /\ e.exp <= sweepNow
              THEN /\ store' = [store EXCEPT ![x[2]] = NULL]
                   /\ em' = EmDel(em, x[2], e.exp)
                   /\ apc' = "sweep_poldel"
                   /\ areg' = [item |-> [NoItem EXCEPT !.t = "sweep", !.h = x[2], !.conf = x[3], !.exp = e.exp, !.val = e.val],
                               victims |-> <<>>]
              ELSE apc' = next /\ UNCHANGED <<areg, store, em>>
       ELSE /\ UNCHANGED <<store, em>>
            /\ IF e.exp > sweepNow \/ (FixZero /\ e.exp = 0)
                 THEN apc' = next /\ UNCHANGED areg
                 ELSE /\ apc' = "sweep_poldel"
                      /\ areg' = [item |-> [NoItem EXCEPT !.t = "sweep", !.h = x[2], !.conf = x[3], !.exp = e.exp],
                                  victims |-> <<>>]
  /\ UNCHANGED <<lastCleaned, pol, used, maxCost, door, cnt, buf, sendq, sweepNow, pc, creg, now, 
                 tickPending, running, stopq, closed, met, nextVal, ops, exitCnt, evictCnt, rejectCnt, 
                 accepted, refused, valKey, delOblig, waitCover, mustMiss, clearOwed, gets, dropped, 
                 zeroVictim, rejVict, refusedRw, lowered, swept0, lastUpd, clrOverlap, raised, bad>>

SweepPolDel ==     \* policy.Cost + policy.Del
  /\ apc = "sweep_poldel"
  /\ swept0' = IF pol[areg.item.h] = 0 THEN swept0 \cup {areg.item.h} ELSE swept0
  /\ LET h == areg.item.h IN
     IF pol[h] # NoCost
       THEN /\ pol' = [pol EXCEPT ![h] = NoCost] /\ used' = used - pol[h]
            /\ met' = [met EXCEPT !.costEvict = @ + pol[h], !.keyEvict = @ + 1]
       ELSE UNCHANGED <<pol, used, met>>
  /\ apc' = "sweep_storedel"
  /\ UNCHANGED <<store, em, lastCleaned, maxCost, door, cnt, buf, sendq, areg, sweepQ, sweepNow, pc, creg, 
                 now, tickPending, running, stopq, closed, nextVal, ops, exitCnt, evictCnt, rejectCnt, 
                 accepted, refused, valKey, delOblig, waitCover, mustMiss, clearOwed, gets, dropped, 
                 zeroVictim, rejVict, refusedRw, swSkip, lowered, lastUpd, clrOverlap, raised, bad>>

SweepStoreDel ==   \* code as it was: store.Del(key, conflict) + onEvict.  FixAtomic: only onEvict is left
  /\ apc = "sweep_storedel"
  /\ IF FixAtomic
       THEN /\ exitCnt' = Exit1(exitCnt, areg.item.val) /\ evictCnt' = Exit1(evictCnt, areg.item.val)
            /\ UNCHANGED <<store, em, bad>>
       ELSE LET h == areg.item.h  e == store[h]
                still == e # NULL /\ ConfOK(areg.item.conf, e.conf) IN
            /\ IF still THEN /\ store' = [store EXCEPT ![h] = NULL]
                             /\ em' = EmDel(em, h, e.exp)
                             /\ exitCnt' = Exit1(exitCnt, e.val) /\ evictCnt' = Exit1(evictCnt, e.val)
                        ELSE UNCHANGED <<store, em, exitCnt, evictCnt>>
            /\ bad' = bad \cup Flag(still /\ e.exp = 0, "C14 sweep removed an entry without TTL")
                          \cup Flag(still /\ e.exp > sweepNow, "C14 sweep removed an entry whose TTL has not elapsed")
  /\ apc' = IF sweepQ = {} THEN "idle" ELSE "sweep_check"
  /\ UNCHANGED <<lastCleaned, pol, used, maxCost, door, cnt, buf, sendq, areg, sweepQ, sweepNow, pc, creg, 
                 now, tickPending, running, stopq, closed, met, nextVal, ops, rejectCnt, accepted, 
                 refused, valKey, delOblig, waitCover, mustMiss, clearOwed, gets, dropped, zeroVictim, 
                 rejVict, refusedRw, swSkip, lowered, swept0, lastUpd, clrOverlap, raised>>

Tick ==            \* the clock advances by one tick; the ticker fires (channel of capacity 1)
  /\ now < MaxTime
  /\ now' = now + 1 /\ tickPending' = TRUE
  /\ UNCHANGED <<store, em, lastCleaned, pol, used, maxCost, door, cnt, buf, sendq, apc, areg, sweepQ, 
                 sweepNow, pc, creg, running, stopq, closed, met, nextVal, ops, exitCnt, evictCnt, 
                 rejectCnt, accepted, refused, valKey, delOblig, waitCover, mustMiss, clearOwed, gets, 
                 dropped, zeroVictim, rejVict, refusedRw, swSkip, lowered, swept0, lastUpd, clrOverlap, 
                 raised, bad>>

(* ------------------------------------------------------------------------------------------ *)
(* Clear / Close                                                                                *)
ClearCall(c, kind) ==   \* the call begins; the client blocks in `c.stop <- struct{}{}`
  /\ pc[c] = "idle" /\ CanCall /\ kind \in Ops /\ kind \in {"clear", "close"}
  /\ kind = "close" => \A d \in Clients \ {c} : pc[d] = "idle"
  /\ ops' = ops + 1
  /\ creg' = [creg EXCEPT ![c] = [NoItem EXCEPT !.t = kind, !.c = c]]
  /\ pc' = [pc EXCEPT ![c] = "clr_stop"]
  /\ stopq' = Append(stopq, c)
  /\ clearOwed' = [clearOwed EXCEPT ![c] = {v \in accepted : exitCnt[v] = 0}]
  /\ clrOverlap' = (InClear \/ \E d \in Clients \ {c} : pc[d] # "idle")
  /\ UNCHANGED <<store, em, lastCleaned, pol, used, maxCost, door, cnt, buf, sendq, apc, areg, sweepQ, 
                 sweepNow, now, tickPending, running, closed, met, nextVal, exitCnt, evictCnt, rejectCnt, 
                 accepted, refused, valKey, delOblig, waitCover, mustMiss, gets, dropped, zeroVictim, 
                 rejVict, refusedRw, swSkip, lowered, swept0, lastUpd, raised, bad>>

ClearStop(c) ==         \* the applier takes the stop arm, signals done and exits
  /\ pc[c] = "clr_stop" /\ running /\ apc = "idle" /\ stopq # <<>> /\ Head(stopq) = c
  /\ running' = FALSE /\ stopq' = Tail(stopq)
  /\ pc' = [pc EXCEPT ![c] = "clr_drain"]
  /\ UNCHANGED <<store, em, lastCleaned, pol, used, maxCost, door, cnt, buf, sendq, apc, areg, sweepQ, 
                 sweepNow, creg, now, tickPending, closed, met, nextVal, ops, exitCnt, evictCnt, 
                 rejectCnt, accepted, refused, valKey, delOblig, waitCover, mustMiss, clearOwed, gets, 
                 dropped, zeroVictim, rejVict, refusedRw, swSkip, lowered, swept0, lastUpd, clrOverlap, 
                 raised, bad>>

\* everything Clear's drain loop receives: the buffer, then the items of the blocked senders
DrainItems == buf \o [i \in 1..Len(sendq) |-> creg[sendq[i]]]

ClearDrain(c) ==        \* the drain loop: markers closed, non-update items passed to onEvict
  /\ pc[c] = "clr_drain"
  /\ LET items == DrainItems
         vals == {items[i].val : i \in {j \in 1..Len(items) : items[j].t = "new"}}
         waiters == {items[i].c : i \in {j \in 1..Len(items) : items[j].t = "wait"}}
         dels == {i \in 1..Len(sendq) : creg[sendq[i]].t = "del"}
     IN /\ buf' = <<>> /\ sendq' = <<>>
        /\ exitCnt' = [v \in Vals |-> exitCnt[v] + (IF v \in vals THEN 1 ELSE 0)]
        /\ evictCnt' = [v \in Vals |-> evictCnt[v] + (IF v \in vals THEN 1 ELSE 0)]
        /\ pc' = [d \in Clients |->
                    IF d = c THEN "clr_policy"
                    ELSE IF d \in waiters THEN "idle"
                    ELSE IF pc[d] = "blocked" THEN "idle"        \* a blocked Del: sent, drained, returns
                    ELSE pc[d]]
        /\ delOblig' = delOblig \cup {creg[sendq[i]].k : i \in dels}
        \* a marker closed by Clear's drain carries no visibility guarantee: the writes before it were
        \* discarded, not applied, and the map is wiped only later in the same Clear
  /\ UNCHANGED <<store, em, lastCleaned, pol, used, maxCost, door, cnt, apc, areg, sweepQ, sweepNow, creg, 
                 now, tickPending, running, stopq, closed, met, nextVal, ops, rejectCnt, accepted, 
                 refused, valKey, waitCover, mustMiss, clearOwed, gets, dropped, zeroVictim, rejVict, 
                 refusedRw, swSkip, lowered, swept0, lastUpd, clrOverlap, raised, bad>>

ClearPolicy(c) ==       \* policy.Clear under the policy lock
  /\ pc[c] = "clr_policy"
  /\ pol' = [h \in Hashes |-> NoCost] /\ used' = 0
  /\ door' = [h \in Hashes |-> FALSE] /\ cnt' = [h \in Hashes |-> 0]
  /\ pc' = [pc EXCEPT ![c] = "clr_store"]
  /\ UNCHANGED <<store, em, lastCleaned, maxCost, buf, sendq, apc, areg, sweepQ, sweepNow, creg, now, 
                 tickPending, running, stopq, closed, met, nextVal, ops, exitCnt, evictCnt, rejectCnt, 
                 accepted, refused, valKey, delOblig, waitCover, mustMiss, clearOwed, gets, dropped, 
                 zeroVictim, rejVict, refusedRw, swSkip, lowered, swept0, lastUpd, clrOverlap, raised, 
                 bad>>

ClearStore(c) ==        \* store.Clear(onEvict) for every shard, expiryMap.clear
  /\ pc[c] = "clr_store"
  /\ LET vals == {store[h].val : h \in {x \in Hashes : store[x] # NULL}} IN
     /\ exitCnt' = [v \in Vals |-> exitCnt[v] + (IF v \in vals THEN 1 ELSE 0)]
     /\ evictCnt' = [v \in Vals |-> evictCnt[v] + (IF v \in vals THEN 1 ELSE 0)]
  /\ store' = [h \in Hashes |-> NULL]
  /\ em' = {} /\ lastCleaned' = CleanupBucket(now)
  /\ pc' = [pc EXCEPT ![c] = "clr_fin"]
  /\ UNCHANGED <<pol, used, maxCost, door, cnt, buf, sendq, apc, areg, sweepQ, sweepNow, creg, now, 
                 tickPending, running, stopq, closed, met, nextVal, ops, rejectCnt, accepted, refused, 
                 valKey, delOblig, waitCover, mustMiss, clearOwed, gets, dropped, zeroVictim, rejVict, 
                 refusedRw, swSkip, lowered, swept0, lastUpd, clrOverlap, raised, bad>>

ClearRestart(c) ==      \* Metrics.Clear, go processItems(); Clear returns
  /\ pc[c] = "clr_fin"
  /\ met' = ZeroMet /\ gets' = 0 /\ dropped' = 0
  /\ running' = TRUE
  /\ pc' = [pc EXCEPT ![c] = IF creg[c].t = "close" THEN "cls_stop" ELSE "idle"]
  /\ bad' = bad \cup Flag(\E v \in clearOwed[c] : exitCnt[v] # 1, "C04 value accepted before Clear not released exactly once")
                \cup Flag(~clrOverlap /\ (\E h \in Hashes : store[h] # NULL \/ pol[h] # NoCost),
                          "C15 Clear left entries behind")
                \cup Flag(~clrOverlap /\ (used # 0 \/ em # {} \/ buf # <<>> \/ sendq # <<>>),
                          "C15 Clear left accounting or buffered items behind")
                \cup Flag(~clrOverlap /\ \E d \in Clients : pc[d] \in {"wait_block", "blocked"},
                          "C15 Clear left a Wait blocked")
  /\ UNCHANGED <<store, em, lastCleaned, pol, used, maxCost, door, cnt, buf, sendq, apc, areg, sweepQ, 
                 sweepNow, creg, now, tickPending, stopq, closed, nextVal, ops, exitCnt, evictCnt, 
                 rejectCnt, accepted, refused, valKey, delOblig, waitCover, mustMiss, clearOwed, 
                 zeroVictim, rejVict, refusedRw, swSkip, lowered, swept0, lastUpd, clrOverlap, raised>>

CloseFinish(c) ==       \* second stop/done rendezvous, channels closed, policy goroutine stopped
  /\ pc[c] = "cls_stop" /\ running /\ apc = "idle"
  /\ running' = FALSE /\ closed' = TRUE
  /\ pc' = [pc EXCEPT ![c] = "idle"]
  /\ UNCHANGED <<store, em, lastCleaned, pol, used, maxCost, door, cnt, buf, sendq, apc, areg, sweepQ, 
                 sweepNow, creg, now, tickPending, stopq, met, nextVal, ops, exitCnt, evictCnt, rejectCnt, 
                 accepted, refused, valKey, delOblig, waitCover, mustMiss, clearOwed, gets, dropped, 
                 zeroVictim, rejVict, refusedRw, swSkip, lowered, swept0, lastUpd, clrOverlap, raised, 
                 bad>>

ClosedOp(c, op) ==      \* any call on a closed cache is a no-op
  /\ closed /\ pc[c] = "idle" /\ ops < MaxOps
  /\ op \in Ops \cap {"set", "del", "get", "wait", "clear", "close"}
  /\ ops' = ops + 1
  /\ UNCHANGED <<store, em, lastCleaned, pol, used, maxCost, door, cnt, buf, sendq, apc, areg, sweepQ, 
                 sweepNow, pc, creg, now, tickPending, running, stopq, closed, met, nextVal, exitCnt, 
                 evictCnt, rejectCnt, accepted, refused, valKey, delOblig, waitCover, mustMiss, clearOwed, 
                 gets, dropped, zeroVictim, rejVict, refusedRw, swSkip, lowered, swept0, lastUpd, 
                 clrOverlap, raised, bad>>

(* ------------------------------------------------------------------------------------------ *)
Next ==
  \/ \E c \in Clients, k \in Keys, cost \in Costs \cup {KeyCost[kk] : kk \in Keys}, ttl \in TTLs : SetBegin(c, k, cost, ttl)
  \/ \E c \in Clients : SetSend(c) \/ DelSend(c) \/ WaitCall(c) \/ Iter(c)
  \/ \E c \in Clients, k \in Keys : DelBegin(c, k) \/ Get(c, k) \/ GetTTL(c, k)
  \/ \E c \in Clients, m \in MaxCosts : SetMaxCost(c, m)
  \/ AppDequeue \/ AppStoreSet \/ AppReject \/ AppVictim \/ AppDelStore
  \/ SweepGrab \/ (\E x \in (0..(MaxTime + 10)) \X Hashes \X ({0} \cup {ConfOf[k] : k \in Keys}) : SweepCheck(x)) \/ SweepPolDel \/ SweepStoreDel
  \/ Tick
  \/ \E c \in Clients, kind \in {"clear", "close"} : ClearCall(c, kind)
  \/ \E c \in Clients : ClearStop(c) \/ ClearDrain(c) \/ ClearPolicy(c) \/ ClearStore(c)
                        \/ ClearRestart(c) \/ CloseFinish(c)
  \/ \E c \in Clients, op \in Ops : ClosedOp(c, op)

Spec == Init /\ [][Next]_vars

\* steps that continue a call in progress or belong to the background goroutines (everything except
\* the start of a client call and the clock)
Progress ==
  \/ \E c \in Clients : SetSend(c) \/ DelSend(c)
  \/ AppDequeue \/ AppStoreSet \/ AppReject \/ AppVictim \/ AppDelStore
  \/ SweepGrab \/ (\E x \in (0..(MaxTime + 10)) \X Hashes \X ({0} \cup {ConfOf[k] : k \in Keys}) : SweepCheck(x))
  \/ SweepPolDel \/ SweepStoreDel
  \/ \E c \in Clients : ClearStop(c) \/ ClearDrain(c) \/ ClearPolicy(c) \/ ClearStore(c)
                        \/ ClearRestart(c) \/ CloseFinish(c)

\* C08 (no deadlock): whenever some call has not returned, some step other than a new call is possible
AllReturned == \A c \in Clients : pc[c] = "idle"
C08_NoHang == AllReturned \/ ENABLED Progress
\* C08 (every call returns): under weak fairness of the background/continuation steps (Go's select
\* picks a ready arm at random, so the stop arm is taken eventually: strong fairness of ClearStop)
FairSpec == Spec /\ WF_vars(Progress) /\ \A c \in Clients : SF_vars(ClearStop(c) \/ CloseFinish(c))
C08_CallsReturn == \A c \in Clients : (pc[c] # "idle") ~> (pc[c] = "idle")

(* ------------------------------------------------------------------------------------------ *)
(* properties                                                                                   *)
Quiescent == buf = <<>> /\ sendq = <<>> /\ apc = "idle" /\ running /\ \A c \in Clients : pc[c] = "idle"
Resident == {h \in Hashes : store[h] # NULL}
NoCollision == \A k1, k2 \in Keys : k1 # k2 => HashOf[k1] # HashOf[k2]

TypeOK ==
  /\ \A h \in Hashes : pol[h] = NoCost \/ pol[h] >= 0
  /\ Len(buf) <= BufCap
  /\ \A c \in Clients : pc[c] \in {"idle", "set_send", "del_send", "blocked", "wait_block",
                                    "clr_stop", "clr_drain", "clr_policy", "clr_store", "clr_fin", "cls_stop"}

NoBad == bad = {}
C01_Provenance == "C01 Get served a value written under another key" \notin bad
\* C02: the map never holds a value that was passed to OnExit (Get serves only what the map holds)
C02_NoServeAfterExit == /\ \A h \in Hashes : store[h] # NULL => exitCnt[store[h].val] = 0
                        /\ "C02 Get served an exited value" \notin bad
C03_UsedIsSum == used = SumPol(pol)
C03_Admission == /\ "C03 admission pushed used above MaxCost" \notin bad
                 /\ "C03 admitted an item larger than MaxCost" \notin bad
C03_Remaining == (Quiescent /\ ~raised) => maxCost - used >= 0
C04_AtMostOnce == \A v \in Vals : /\ exitCnt[v] <= 1 /\ evictCnt[v] <= 1 /\ rejectCnt[v] <= 1
                                  /\ evictCnt[v] + rejectCnt[v] <= exitCnt[v]
                                  /\ v \in refused => exitCnt[v] = 0
C04_NotWhileRetrievable == \A h \in Hashes : store[h] # NULL => exitCnt[store[h].val] = 0
C04_ClearOwes == "C04 value accepted before Clear not released exactly once" \notin bad
C05_DelWins == /\ Quiescent => \A k \in delOblig : Lookup(k) = 0
               /\ \A k \in mustMiss : Lookup(k) = 0
               /\ "C05 Get hit after Del+Wait" \notin bad
C09_FitAdmitted == "C09 fitting item not admitted cleanly" \notin bad
C13_Agree == (Quiescent /\ NoCollision) => PolKeys(pol) = Resident
C13_Indexed == (running /\ apc = "idle") =>
                 \A h \in Hashes : (store[h] # NULL /\ store[h].exp # 0) =>
                     (\E p \in em : p[2] = h /\ p[1] > lastCleaned)
C14_SweepOnlyExpired == /\ "C14 sweep removed an entry without TTL" \notin bad
                        /\ "C14 sweep removed an entry whose TTL has not elapsed" \notin bad
C15_ClearClean == /\ "C15 Clear left entries behind" \notin bad
                  /\ "C15 Clear left a Wait blocked" \notin bad
                  /\ "C15 Clear left accounting or buffered items behind" \notin bad
C17_Conservation ==
  Quiescent => /\ met.hit + met.miss = gets
               /\ NoCollision => met.keyAdd - met.keyEvict = Cardinality(Resident)
               /\ met.costAdd - met.costEvict = used
               /\ met.dropSets = dropped
\* state projection used for model checking: the implementation state plus the history the
\* invariants of the configuration at hand need is selected per configuration (VIEW).
ImplView == implVars
=============================================================================
