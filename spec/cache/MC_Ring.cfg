SPECIFICATION Spec
CONSTANTS
  Keys = {1, 2}
  Capa = 2
  ChCap = 2
  MaxGets = 7
  MaxStripes = 2
  Eager = FALSE
  ReuseKept = FALSE
INVARIANTS BatchesIntact KeptDroppedBounded NoOverCount KeptIsSent
