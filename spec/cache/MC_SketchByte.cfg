\* byte layer: all 256 byte values x {increment low, increment high, reset, clear}
SPECIFICATION ByteSpec
CONSTANTS
  Keys <- MCKeys
  Depth = 1
  W = 2
  Idx <- IdxXor
  DoorAlias <- AliasNone
  ResetAt = 4
  InitVals = {0}
  PushSeqs <- MCPush
  Mode = "sketch"
  MaxOps = 1
INVARIANTS ByteGetOK
PROPERTIES ByteIncLowOK ByteIncHighOK ByteResetOK ByteClearOK
