\* TinyLFU over the code's XOR index function (the configuration whose behaviours are replayed)
SPECIFICATION Spec
CONSTANTS
  Keys <- MCKeys
  Depth = 4
  W = 4
  Idx <- IdxXor
  DoorAlias <- AliasOne
  ResetAt = 4
  InitVals = {0, 13}
  PushSeqs <- MCPush
  Mode = "lfu"
  MaxOps = 5
INVARIANTS TypeOK EstBounds
PROPERTIES Monotone Saturate ResetHalves AutoResetHalves ClearZeroes
