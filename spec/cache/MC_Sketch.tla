----------------------------- MODULE MC_Sketch -----------------------------
(* Model-checking instances of Sketch.tla. *)
EXTENDS Sketch

MCKeys == 1..4
\* the code's index function: (hashed XOR seed[i]) AND mask, restricted to the low bits that matter.
\* Keys 1 and 4 share all their counters; keys 1 and 2 are nibble neighbours in every row.
SeedLow == <<0, 1, 2, 3>>
KeyLow  == <<0, 1, 2, 0>>
IdxXor  == [k \in MCKeys |-> [i \in 1..4 |-> KeyLow[k] ^^ SeedLow[i]]]
\* a general index function with partial collisions (rows that disagree about who collides)
IdxGen  == [k \in MCKeys |-> CASE k = 1 -> <<0, 1, 2, 3>>
                               [] k = 2 -> <<0, 2, 3, 1>>
                               [] k = 3 -> <<1, 1, 0, 0>>
                               [] k = 4 -> <<3, 3, 3, 2>>]
\* <<k, a>>: key k is a false positive of the doorkeeper as soon as key a has been added
\* (checks/c18_sketch.py reads KeyLow and AliasPairs from this file to realise the keys)
AliasPairs == {<<4, 2>>}
AliasOne  == [k \in MCKeys |-> {{q[2]} : q \in {r \in AliasPairs : r[1] = k}}]
\* Push is a loop over Increment; a few sequences (full collision, false positive first, repeated key,
\* three keys) instead of all pairs keep the branching factor at 9
MCPush == {<<1, 2>>, <<2, 2>>, <<4, 2>>, <<3, 1, 4>>}
AliasNone == [k \in MCKeys |-> {}]
=============================================================================
