SPECIFICATION Spec
CONSTANTS
  Keys = {1, 2}
  Hashes = {1, 2}
  HashOf <- IdHash
  ConfOf <- NoConf
  Clients = {1, 2}
  MaxOps = 3
  Ops = {"set", "del", "wait", "get"}
  BufCap = 1
  InitMaxCost = 2
  MaxCosts = {2}
  Costs = {1, 2}
  CostFn = 0
  ItemSize = 0
  TTLs = {0}
  D = 2
  MaxTime = 0
  MaxGets = 2
  RefuseVals = {}
  FixZero = FALSE
  FixAtomic = FALSE
  FixLate = FALSE
INVARIANTS TypeOK NoBad C02_NoServeAfterExit C03_UsedIsSum C03_Admission C03_Remaining C04_AtMostOnce C05_DelWins C13_Agree C17_Conservation
